"""Source translator: a small subset of Python -> Lean 4 definitions (shallow embedding).

This is the *second* tie between the Lean model and /repo (DESIGN.md 11.10): for the pure, scalar core of the
package the Lean text is **regenerated from the current source on every run**, and theorems proved in
`Ampy/Lemmas/GenEquiv*.lean` state that the regenerated definitions equal the hand-written model *for all
inputs*.  A source change that alters the meaning of one of these functions changes the generated definition,
the equality proof no longer checks, and the check goes on to search for a failing input.

What is translated (everything else raises `Unsupported` and that function falls back to the behavioural
correspondence alone — reported in the evidence, never an alarm by itself):

  statements   assignment to a local name (also annotated / augmented `+=`), `if/elif/else`, `return`,
               `raise AmpycloudError(...)`, `for x in <list>` without `break/continue/return` inside, docstrings,
               `logger.<level>(...)` calls (dropped: logging has no effect on the value)
  expressions  int / float / str / bool / None constants, local names, `+ - * /` (true division only by a non-zero
               literal constant), comparisons (also chained), `in [literals]`, `and or not`, `*` between boolean
               masks, list literals, list `+`, `lst.count(True)`, `len(x)`, `isinstance(x, T)` (decided from the
               declared parameter type), `np.isnan/floor/ceil/round/all`, `int(x)`, `x.astype(int)`,
               f-strings of the single form `f'{<int expr>:03}'`
  numpy elementwise mode (perc2okta): the function body is a sequence of elementwise array statements, so the
               array function is the map of the scalar function obtained by reading `out[mask] = rhs` as
               `out = rhs if mask else out` (with `x[mask]` on the right-hand side read as `x`), `np.array([val])`
               as `val`, `np.full_like(val, c, dtype=float)` as `c`.  This rule is part of the trusted base.

Types are Lean types given as strings: Int, Bool, String, PyFloat, `List T`, `Option String`.
"""
from __future__ import annotations

import ast
import hashlib
import textwrap
from fractions import Fraction
from pathlib import Path


class Unsupported(Exception):
    def __init__(self, node, why):
        self.lineno = getattr(node, 'lineno', 0)
        super().__init__(f'line {self.lineno}: {why}')


# ------------------------------------------------------------------------------------------------
# which functions, with which signatures
# ------------------------------------------------------------------------------------------------
SPECS = {
    'significant_cloud': dict(file='icao.py', params={'oktas': 'List Int'}, ret='List Bool', raises=False,
                              elementwise=False),
    'okta2code': dict(file='wmo.py', params={'val': 'Int'}, ret='Option String', raises=True, elementwise=False),
    'okta2symb': dict(file='wmo.py', params={'val': 'Int', 'use_metsymb': 'Bool'}, ret='String', raises=True, elementwise=False),
    'height2code': dict(file='wmo.py', params={'val': 'PyFloat'}, ret='String', raises=True, elementwise=False),
    'perc2okta': dict(file='wmo.py', params={'val': 'PyFloat'}, ret='Int', raises=True, elementwise=True),
    # numeric arguments that are never NaN (hit heights of a set, percentages) are exact rationals (`Rat`);
    # the third-party call np.percentile becomes a parameter of the generated definition (any function)
    'calc_base_height': dict(file='utils/utils.py', params={'vals': 'List Rat', 'lookback_perc': 'Rat', 'height_perc': 'Rat'},
                             ret='Rat', raises=True, elementwise=False,
                             externals={'np.percentile': ('pctl', 'List Rat → Rat → Rat', ('List Rat', 'Rat'), 'Rat')}),
    'minrange2minmax': dict(file='scaler.py', params={'vals': 'List PyFloat', 'min_range': 'Rat'}, ret='Rat × Rat', raises=False,
                            elementwise=False,
                            externals={'np.nanmax': ('nanmax', 'List PyFloat → Rat', ('List PyFloat',), 'Rat'),
                                       'np.nanmin': ('nanmin', 'List PyFloat → Rat', ('List PyFloat',), 'Rat')}),
    'shift_and_scale': dict(file='scaler.py', params={'vals': 'List PyFloat', 'shift': 'Option Rat', 'scale': 'Rat', 'mode': 'String'},
                            ret='List PyFloat', raises=True, elementwise=False,
                            externals={'np.nanmax': ('nanmax', 'List PyFloat → Rat', ('List PyFloat',), 'Rat')}),
    'minmax_scale': dict(file='scaler.py', params={'vals': 'List PyFloat', 'min_val': 'Option Rat', 'max_val': 'Option Rat', 'mode': 'String'},
                         ret='List PyFloat', raises=True, elementwise=False,
                         externals={'np.nanmax': ('nanmax', 'List PyFloat → Rat', ('List PyFloat',), 'Rat'),
                                    'np.nanmin': ('nanmin', 'List PyFloat → Rat', ('List PyFloat',), 'Rat')}),
    # model selection from the mixture scores (mode 'prob' goes through exponentials: scores2nrl is a parameter)
    'best_gmm': dict(file='layer.py', params={'abics': 'List Rat', 'mode': 'String', 'min_prob': 'Rat', 'delta_mul_gain': 'Rat'},
                     ret='Int', raises=True, elementwise=False,
                     externals={'scores2nrl': ('scores2nrl', 'List Rat → List Rat', ('List Rat',), 'List Rat')}),
    '_ncd_or_nsc': dict(file='data.py', cls='CeiloChunk', params={}, attrs={'_clouds_above_msa_buffer': 'Bool'},
                        ret='String', raises=False, elementwise=False, lean_name='ncd_or_nsc'),
    # a method: `self.prms['KEY']` becomes the parameter KEY (the chunk's own parameter snapshot)
    '_get_min_sep_for_height': dict(file='data.py', cls='CeiloChunk', params={'height': 'Rat'},
                                    prms={'MIN_SEP_LIMS': 'List Rat', 'MIN_SEP_VALS': 'List Rat'},
                                    ret='Rat', raises=True, elementwise=False, lean_name='get_min_sep_for_height'),
}

LEAN_NAME = {k: v.get('lean_name', k) for k, v in SPECS.items()}


def rat_lit(fr: Fraction) -> str:
    if fr.denominator == 1:
        return f'({fr.numerator} : Rat)'
    return f'(({fr.numerator} : Rat) / {fr.denominator})'


class Tr:
    """Translator for one function."""

    def __init__(self, spec):
        self.spec = spec
        self.elementwise = spec['elementwise']
        self.raises = spec['raises']
        self.ret = spec['ret']
        self.fresh = 0

    # -- helpers ---------------------------------------------------------------------------------
    def tmp(self):
        self.fresh += 1
        return f't{self.fresh}'

    def coerce(self, code, ty, want, node):
        if ty == want:
            return code
        if ty == 'Int' and want == 'PyFloat':
            return f'(F.ofInt {code})'
        if ty == 'Rat' and want == 'PyFloat':
            return f'(F.ofRat {code})'
        if ty == 'Int' and want == 'Rat':
            return f'(({code} : Int) : Rat)'
        if ty == 'Bool' and want == 'Int':
            return f'(if {code} then (1 : Int) else 0)'
        if ty == 'None' and want.startswith('Option '):
            return 'none'
        if want.startswith('Option ') and ty == want[len('Option '):]:
            return f'(some {code})'
        if ty == 'List ?' and want.startswith('List '):
            return f'({code} : {want})'
        raise Unsupported(node, f'cannot use a value of type {ty} where {want} is needed')

    # -- expressions: return (code, type, binds) where binds is a list of (tmpname, fallible code) -----
    def expr(self, n, env, binds):
        if isinstance(n, ast.Constant):
            v = n.value
            if isinstance(v, bool):
                return ('true' if v else 'false'), 'Bool'
            if isinstance(v, int):
                return f'({v} : Int)', 'Int'
            if isinstance(v, float):
                return f'(F.ofRat {rat_lit(Fraction(repr(v)))})', 'PyFloat'
            if isinstance(v, str):
                if '"' in v or any(ord(ch) < 32 or ord(ch) > 126 for ch in v):
                    raise Unsupported(n, 'string constant with quotes / non-printable characters')
                return '"' + v.replace('\\', '\\\\') + '"', 'String'
            if v is None:
                return 'none', 'None'
            raise Unsupported(n, f'constant {v!r}')
        if isinstance(n, ast.Name):
            if n.id not in env:
                raise Unsupported(n, f'name {n.id} is not a local')
            if env[n.id] == 'None':
                return 'none', 'None'
            if env[n.id].startswith('Unbound? '):
                v = self.tmp()
                binds.append((v, f'unboundLocal {n.id}'))
                return v, env[n.id][len('Unbound? '):]
            return n.id, env[n.id]
        if isinstance(n, ast.UnaryOp):
            c, t = self.expr(n.operand, env, binds)
            if isinstance(n.op, ast.Not):
                if t != 'Bool':
                    raise Unsupported(n, f'`not` on {t}')
                return f'(!{c})', 'Bool'
            if isinstance(n.op, ast.USub):
                if t == 'Int':
                    return f'(-{c})', 'Int'
                if t == 'PyFloat':
                    return f'(F.neg {c})', 'PyFloat'
                if t == 'Rat':
                    return f'(-{c})', 'Rat'
            raise Unsupported(n, 'unary operator')
        if isinstance(n, ast.BoolOp):
            parts = []
            for v in n.values:
                c, t = self.expr(v, env, binds)
                if t != 'Bool':
                    raise Unsupported(v, f'and/or operand of type {t}')
                parts.append(c)
            op = ' && ' if isinstance(n.op, ast.And) else ' || '
            return '(' + op.join(parts) + ')', 'Bool'
        if isinstance(n, ast.Compare):
            return self.compare(n, env, binds)
        if isinstance(n, ast.BinOp):
            return self.binop(n, env, binds)
        if isinstance(n, ast.Attribute) and isinstance(n.value, ast.Name) and n.value.id == 'self' \
                and n.attr in self.spec.get('attrs', {}):
            return n.attr, self.spec['attrs'][n.attr]
        if isinstance(n, ast.Tuple) and len(n.elts) == 2:
            (a, ta), (b, tb) = self.expr(n.elts[0], env, binds), self.expr(n.elts[1], env, binds)
            return f'({a}, {b})', f'{ta} × {tb}'
        if isinstance(n, ast.List):
            if not n.elts:
                return '[]', 'List ?'
            cs = [self.expr(e, env, binds) for e in n.elts]
            ts = {t for _, t in cs}
            if len(ts) != 1:
                raise Unsupported(n, 'heterogeneous list literal')
            return '[' + ', '.join(c for c, _ in cs) + ']', f'List {ts.pop()}'
        if isinstance(n, ast.Call):
            return self.call(n, env, binds)
        if isinstance(n, ast.Subscript) and dotted(n.value) == 'self.prms' and isinstance(n.slice, ast.Constant) \
                and n.slice.value in self.spec.get('prms', {}):
            return n.slice.value, self.spec['prms'][n.slice.value]
        if isinstance(n, ast.Subscript) and not isinstance(n.slice, ast.Slice) and not self.elementwise:
            c, t = self.expr(n.value, env, binds)
            ic, it = self.expr(n.slice, env, binds)
            if not t.startswith('List ') or t == 'List ?' or it != 'Int':
                raise Unsupported(n, f'indexing {t} with {it}')
            v = self.tmp()
            binds.append((v, f'getIdx {c} {ic}'))
            return v, t[len('List '):]
        if isinstance(n, ast.Subscript) and isinstance(n.slice, ast.Slice) and not self.elementwise:
            sl = n.slice
            if sl.upper is not None or sl.step is not None or sl.lower is None:
                raise Unsupported(n, 'slice other than x[lo:]')
            c, t = self.expr(n.value, env, binds)
            lo, lt = self.expr(sl.lower, env, binds)
            if not t.startswith('List ') or lt != 'Int':
                raise Unsupported(n, f'slice of {t} from {lt}')
            return f'(sliceFrom {c} {lo})', t
        if isinstance(n, ast.Subscript) and self.elementwise:
            # x[mask] on a right-hand side: elementwise reading
            return self.expr(n.value, env, binds)
        if isinstance(n, ast.JoinedStr):
            return self.fstring(n, env, binds)
        raise Unsupported(n, f'expression {type(n).__name__}')

    def compare(self, n, env, binds):
        left = n.left
        out = []
        for op, right in zip(n.ops, n.comparators):
            if isinstance(op, (ast.In, ast.NotIn)):
                lc, lt = self.expr(left, env, binds)
                if not isinstance(right, ast.List) or lt != 'Int':
                    raise Unsupported(n, '`in` is only translated for an int against a list literal')
                rc, rt = self.expr(right, env, binds)
                if rt != 'List Int':
                    raise Unsupported(n, '`in` against a list of non-ints')
                c = f'(elemInt {lc} {rc})'
                out.append(f'(!{c})' if isinstance(op, ast.NotIn) else c)
            else:
                lc, lt = self.expr(left, env, binds)
                rc, rt = self.expr(right, env, binds)
                sym = {ast.Lt: ('<', 'lt'), ast.LtE: ('≤', 'le'), ast.Gt: ('>', 'gt'), ast.GtE: ('≥', 'ge'),
                       ast.Eq: ('=', 'eq'), ast.NotEq: ('≠', 'ne')}.get(type(op))
                if sym is None:
                    raise Unsupported(n, f'comparison {type(op).__name__}')
                if lt == 'Int' and rt == 'Int':
                    out.append(f'(decide ({lc} {sym[0]} {rc}))')
                elif {lt, rt} <= {'Int', 'Rat'}:
                    out.append(f'(decide ({self.coerce(lc, lt, "Rat", n)} {sym[0]} {self.coerce(rc, rt, "Rat", n)}))')
                elif {lt, rt} <= {'Int', 'PyFloat'}:
                    out.append(f'(F.{sym[1]} {self.coerce(lc, lt, "PyFloat", n)} {self.coerce(rc, rt, "PyFloat", n)})')
                elif lt == rt == 'String' and sym[1] in ('eq', 'ne'):
                    out.append(f'(decide ({lc} {sym[0]} {rc}))')
                else:
                    raise Unsupported(n, f'comparison between {lt} and {rt}')
            left = right
        return ('(' + ' && '.join(out) + ')' if len(out) > 1 else out[0]), 'Bool'

    def binop(self, n, env, binds):
        lc, lt = self.expr(n.left, env, binds)
        rc, rt = self.expr(n.right, env, binds)
        op = type(n.op)
        if (lt == 'List PyFloat') != (rt == 'List PyFloat') and {lt, rt} - {'List PyFloat'} <= {'Int', 'Rat', 'PyFloat'} \
                and op in (ast.Add, ast.Sub, ast.Mult, ast.Div):
            # numpy broadcasting of a scalar over an array: element-wise map
            f = {ast.Add: 'add', ast.Sub: 'sub', ast.Mult: 'mul', ast.Div: 'div'}[op]
            if op is ast.Div:
                val = const_value(n.right)
                if lt != 'List PyFloat':
                    raise Unsupported(n, 'scalar divided by an array')
                if val is None or val == 0:
                    f = 'divz'          # non-literal divisor: NaN where numpy gives +-inf / nan (division by zero)
            if lt == 'List PyFloat':
                return f'(List.map (fun v => F.{f} v {self.coerce(rc, rt, "PyFloat", n)}) {lc})', 'List PyFloat'
            return f'(List.map (fun v => F.{f} {self.coerce(lc, lt, "PyFloat", n)} v) {rc})', 'List PyFloat'
        if lt.startswith('List') and rt.startswith('List') and op is ast.Add:
            t = lt if lt != 'List ?' else rt
            return f'({lc} ++ {rc})', t
        if lt == rt == 'Bool' and op is ast.Mult:      # product of boolean masks
            return f'({lc} && {rc})', 'Bool'
        if lt == rt == 'Int' and op in (ast.Add, ast.Sub, ast.Mult):
            s = {ast.Add: '+', ast.Sub: '-', ast.Mult: '*'}[op]
            return f'({lc} {s} {rc})', 'Int'
        if {lt, rt} <= {'Int', 'Rat'} and ('Rat' in (lt, rt) or (op is ast.Div and self.spec.get('rat_arith',
                'Rat' in self.spec['params'].values() or 'List Rat' in self.spec['params'].values()))):
            if op is ast.Div:
                val = const_value(n.right)
                if val is None or val == 0:
                    raise Unsupported(n, 'division by something that is not a non-zero literal constant')
            sym_ = {ast.Add: '+', ast.Sub: '-', ast.Mult: '*', ast.Div: '/'}.get(op)
            if sym_ is None:
                raise Unsupported(n, f'operator {op.__name__}')
            return f'({self.coerce(lc, lt, "Rat", n)} {sym_} {self.coerce(rc, rt, "Rat", n)})', 'Rat'
        if {lt, rt} <= {'Int', 'PyFloat'}:
            if op is ast.Div:
                val = const_value(n.right)
                if val is None or val == 0:
                    raise Unsupported(n, 'division by something that is not a non-zero literal constant')
                f = 'div'
            elif op in (ast.Add, ast.Sub, ast.Mult):
                f = {ast.Add: 'add', ast.Sub: 'sub', ast.Mult: 'mul'}[op]
            else:
                raise Unsupported(n, f'operator {op.__name__}')
            return f'(F.{f} {self.coerce(lc, lt, "PyFloat", n)} {self.coerce(rc, rt, "PyFloat", n)})', 'PyFloat'
        raise Unsupported(n, f'operator {op.__name__} between {lt} and {rt}')

    def call(self, n, env, binds):
        f = n.func
        name = dotted(f)
        args = n.args
        ext = self.spec.get('externals', {}).get(name)
        if ext is not None and not n.keywords and len(args) == len(ext[2]):
            cs = []
            for a_, want in zip(args, ext[2]):
                c, t = self.expr(a_, env, binds)
                cs.append(self.coerce(c, t, want, n))
            return f'({ext[0]} ' + ' '.join(cs) + ')', ext[3]
        if name == 'np.searchsorted' and len(args) == 2 and not n.keywords:
            c, t = self.expr(args[0], env, binds)
            x, xt = self.expr(args[1], env, binds)
            if t != 'List Rat' or xt not in ('Rat', 'Int'):
                raise Unsupported(n, f'searchsorted({t}, {xt})')
            return f'(searchsortedLeft {c} {self.coerce(x, xt, "Rat", n)})', 'Int'
        if name in ('np.isnan', 'numpy.isnan', 'math.isnan') and len(args) == 1:
            c, t = self.expr(args[0], env, binds)
            return f'(F.isnan {self.coerce(c, t, "PyFloat", n)})', 'Bool'
        if name in ('np.floor', 'np.ceil', 'np.round', 'np.around') and len(args) == 1 and not n.keywords:
            c, t = self.expr(args[0], env, binds)
            op = {'np.floor': 'floor', 'np.ceil': 'ceil', 'np.round': 'round', 'np.around': 'round'}[name]
            return f'(F.{op} {self.coerce(c, t, "PyFloat", n)})', 'PyFloat'
        if name == 'np.all' and len(args) == 1 and self.elementwise:
            c, t = self.expr(args[0], env, binds)
            if t != 'Bool':
                raise Unsupported(n, 'np.all of a non-boolean')
            return c, 'Bool'
        if name == 'int' and len(args) == 1:
            return self.to_int(args[0], env, binds, n)
        if name == 'str' and len(args) == 1 and not n.keywords:
            c, t = self.expr(args[0], env, binds)
            if t != 'Int':
                raise Unsupported(n, f'str of {t}')
            return f'(pyStrInt {c})', 'String'
        if isinstance(f, ast.Attribute) and f.attr == 'astype' and len(args) == 1 and dotted(args[0]) == 'int':
            return self.to_int(f.value, env, binds, n)
        if name == 'range' and len(args) == 1 and not n.keywords:
            c, t = self.expr(args[0], env, binds)
            if t != 'Int':
                raise Unsupported(n, f'range of {t}')
            return f'(pyRange {c})', 'List Int'
        if name == 'len' and len(args) == 1:
            c, t = self.expr(args[0], env, binds)
            if not t.startswith('List'):
                raise Unsupported(n, f'len of {t}')
            return f'(len {c})', 'Int'
        if isinstance(f, ast.Attribute) and f.attr == 'count' and len(args) == 1 \
                and isinstance(args[0], ast.Constant) and args[0].value is True:
            c, t = self.expr(f.value, env, binds)
            if t != 'List Bool':
                raise Unsupported(n, f'.count(True) on {t}')
            return f'(countTrue {c})', 'Int'
        if name == 'isinstance' and len(args) == 2:
            c, t = self.expr(args[0], env, binds)
            tys = [dotted(e) for e in (args[1].elts if isinstance(args[1], ast.Tuple) else [args[1]])]
            py = {'Int': {'int'}, 'PyFloat': {'float'}, 'Bool': {'bool', 'int'}, 'String': {'str'}}.get(t)
            if py is None or any(x is None for x in tys):
                raise Unsupported(n, 'isinstance on this type')
            return ('true' if py & set(tys) else 'false'), 'Bool'
        if self.elementwise and name == 'np.array' and len(args) == 1 and isinstance(args[0], ast.List) \
                and len(args[0].elts) == 1:
            return self.expr(args[0].elts[0], env, binds)
        if self.elementwise and name == 'np.full_like' and len(args) == 2:
            c, t = self.expr(args[1], env, binds)
            return self.coerce(c, t, 'PyFloat', n), 'PyFloat'
        raise Unsupported(n, f'call of {name or type(f).__name__}')

    def to_int(self, arg, env, binds, n):
        c, t = self.expr(arg, env, binds)
        if t == 'Int':
            return c, 'Int'
        if t == 'Rat':
            return f'(truncRat {c})', 'Int'
        if t != 'PyFloat':
            raise Unsupported(n, f'int() of {t}')
        v = self.tmp()
        binds.append((v, f'F.toInt {c}'))
        return v, 'Int'

    def fstring(self, n, env, binds):
        if len(n.values) != 1 or not isinstance(n.values[0], ast.FormattedValue):
            raise Unsupported(n, 'f-string other than a single formatted value')
        fv = n.values[0]
        spec = fv.format_spec
        if fv.conversion != -1 or spec is None or len(spec.values) != 1 or spec.values[0].value != '03':
            raise Unsupported(n, 'f-string format other than :03')
        c, t = self.expr(fv.value, env, binds)
        if t != 'Int':
            raise Unsupported(n, f':03 formatting of {t}')
        return f'(fmt03 {c})', 'String'

    # -- statements ---------------------------------------------------------------------------------
    def wrap(self, binds, body):
        """Prefix `body` (a term of the function's result type) with the fallible bindings."""
        for v, code in reversed(binds):
            if not self.raises:
                raise Unsupported(None, 'fallible expression in a function declared not to raise')
            body = f'Except.bind ({code}) (fun {v} => {body})'
        return body

    def ok(self, code):
        return f'(Except.ok {code})' if self.raises else code

    def block(self, stmts, env, ind):
        """Translate a statement list in tail position into a term of the function's result type."""
        pad = '  ' * ind
        if not stmts:
            # falling off the end of the function: `return None`
            return self.ok(self.coerce('none', 'None', self.ret, None)) if self.ret.startswith('Option') else \
                self._nofall()
        s, rest = stmts[0], stmts[1:]
        if isinstance(s, ast.Expr):
            if isinstance(s.value, ast.Constant) and isinstance(s.value.value, str):
                return self.block(rest, env, ind)            # docstring
            d = dotted(s.value.func) if isinstance(s.value, ast.Call) else None
            if d and d.split('.')[0] in ('logger', 'logging'):
                return self.block(rest, env, ind)            # logging has no effect on the value
            raise Unsupported(s, 'expression statement')
        if isinstance(s, ast.Return):
            binds = []
            if s.value is None:
                c, t = 'none', 'None'
            else:
                c, t = self.expr(s.value, env, binds)
            return self.wrap(binds, self.ok(self.coerce(c, t, self.ret, s)))
        if isinstance(s, ast.Raise):
            if not self.raises:
                raise Unsupported(s, 'raise in a function declared not to raise')
            exc = s.exc
            cls = dotted(exc.func) if isinstance(exc, ast.Call) else dotted(exc)
            if cls == 'AmpycloudError':
                return '(Except.error (AmpyErr.ampy ""))'
            return f'(Except.error (AmpyErr.other "{cls}"))'
        if isinstance(s, (ast.Assign, ast.AnnAssign, ast.AugAssign)):
            return self.assign(s, rest, env, ind)
        if isinstance(s, ast.If) and isinstance(s.test, ast.Compare) and len(s.test.ops) == 1 \
                and isinstance(s.test.ops[0], (ast.Is, ast.IsNot)) and isinstance(s.test.left, ast.Name) \
                and isinstance(s.test.comparators[0], ast.Constant) and s.test.comparators[0].value is None \
                and env.get(s.test.left.id, '').startswith('Option '):
            # `if x is None:` on an Optional local: a match that narrows the type of x in both branches
            x = s.test.left.id
            inner = env[x][len('Option '):]
            env_none, env_some = dict(env), dict(env)
            env_none[x] = 'None'
            env_some[x] = inner
            is_none = isinstance(s.test.ops[0], ast.Is)
            a = self.block(list(s.body if is_none else s.orelse) + rest, env_none, ind + 1)
            b = self.block(list(s.orelse if is_none else s.body) + rest, env_some, ind + 1)
            return f'(match {x} with\n{pad}  | none =>\n{pad}    {a}\n{pad}  | some {x} =>\n{pad}    {b})'
        if isinstance(s, ast.If) and not s.orelse and len(s.body) == 1 and isinstance(s.body[0], ast.Assign) \
                and len(s.body[0].targets) == 1 and isinstance(s.body[0].targets[0], ast.Name) \
                and s.body[0].targets[0].id not in env:
            # a local bound in one branch only: `Option`, and every later read fails with UnboundLocalError when unbound
            binds = []
            c, t = self.expr(s.test, env, binds)
            if t != 'Bool':
                raise Unsupported(s, f'condition of type {t}')
            b2 = []
            vc, vt = self.expr(s.body[0].value, env, b2)
            if b2 or vt in ('List ?', 'None'):
                raise Unsupported(s, 'conditionally bound local with a fallible / untyped value')
            x = s.body[0].targets[0].id
            env = dict(env)
            env[x] = 'Unbound? ' + vt
            body = self.block(rest, env, ind)
            return self.wrap(binds, f'let {x} : Option ({vt}) := if {c} then some {vc} else none;\n{pad}{body}')
        if isinstance(s, ast.If):
            binds = []
            c, t = self.expr(s.test, env, binds)
            if t != 'Bool':
                raise Unsupported(s, f'condition of type {t} (truthiness is not translated)')
            a = self.block(list(s.body) + rest, dict(env), ind + 1)
            b = self.block(list(s.orelse) + rest, dict(env), ind + 1)
            return self.wrap(binds, f'(if {c} then\n{pad}  {a}\n{pad}else\n{pad}  {b})')
        if isinstance(s, ast.For):
            return self.forloop(s, rest, env, ind)
        if isinstance(s, ast.Pass):
            return self.block(rest, env, ind)
        raise Unsupported(s, f'statement {type(s).__name__}')

    def _nofall(self):
        raise Unsupported(None, 'control can fall off the end of a function that does not return Optional')

    def assign(self, s, rest, env, ind):
        pad = '  ' * ind
        binds = []
        if isinstance(s, ast.AugAssign):
            tgt = s.target
            val = ast.BinOp(left=ast.Name(id=getattr(tgt, 'id', None), ctx=ast.Load()), op=s.op, right=s.value)
            ast.copy_location(val, s)
            ast.fix_missing_locations(val)
        elif isinstance(s, ast.AnnAssign):
            tgt, val = s.target, s.value
            if val is None:
                return self.block(rest, env, ind)
        else:
            if len(s.targets) != 1:
                raise Unsupported(s, 'multiple assignment targets')
            tgt, val = s.targets[0], s.value
        # elementwise masked assignment  out[mask] = rhs
        if isinstance(tgt, ast.Subscript) and self.elementwise and isinstance(tgt.value, ast.Name):
            name = tgt.value.id
            if name not in env:
                raise Unsupported(s, f'masked assignment to unknown {name}')
            mc, mt = self.expr(tgt.slice, env, binds)
            if mt != 'Bool':
                raise Unsupported(s, 'mask is not boolean')
            for sub in ast.walk(val):                      # x[mask'] on the right: must be the same mask
                if isinstance(sub, ast.Subscript) and ast.dump(sub.slice) != ast.dump(tgt.slice):
                    raise Unsupported(s, 'right-hand side indexed by a different mask')
            vc, vt = self.expr(val, env, binds)
            vc = self.coerce(vc, vt, env[name], s)
            body = self.block(rest, env, ind)
            return self.wrap(binds, f'let {name} : {env[name]} := if {mc} then {vc} else {name};\n{pad}{body}')
        if not isinstance(tgt, ast.Name):
            raise Unsupported(s, 'assignment target')
        name = tgt.id
        vc, vt = self.expr(val, env, binds)
        if isinstance(s, ast.AnnAssign):
            ann = ann_type(s.annotation)
            if ann is not None:
                vc, vt = self.coerce(vc, vt, ann, s), ann
        if name in env and env[name] != vt and env[name] != 'None':
            vc, vt = self.coerce(vc, vt, env[name], s), env[name]
        if vt in ('List ?', 'None'):
            raise Unsupported(s, f'cannot infer the type of {name}')
        env = dict(env)
        env[name] = vt
        body = self.block(rest, env, ind)
        return self.wrap(binds, f'let {name} : {vt} := {vc};\n{pad}{body}')

    def forloop(self, s, rest, env, ind):
        pad = '  ' * ind
        if s.orelse or not isinstance(s.target, ast.Name):
            raise Unsupported(s, 'for loop with else / tuple target')
        fallible = False
        for sub in ast.walk(s):
            if isinstance(sub, (ast.Break, ast.Continue, ast.Return)):
                raise Unsupported(sub, 'break/continue/return inside a for loop')
            if isinstance(sub, ast.Raise) or (isinstance(sub, ast.Subscript) and not isinstance(sub.slice, ast.Slice)
                                              and not self.elementwise):
                fallible = True
            if isinstance(sub, ast.Name) and isinstance(sub.ctx, ast.Load) and env.get(sub.id, '').startswith('Unbound? '):
                fallible = True
        if fallible and not self.raises:
            raise Unsupported(s, 'fallible loop in a function declared not to raise')
        binds = []
        ic, it = self.expr(s.iter, env, binds)
        if not it.startswith('List ') or it == 'List ?':
            raise Unsupported(s, f'iteration over {it}')
        elt = it[len('List '):]
        assigned = sorted({t.id for sub in ast.walk(s) for t in assigned_names(sub)} - {s.target.id})
        state = [a for a in assigned if a in env]            # locals first bound inside the loop are body-local
        if not state:
            raise Unsupported(s, 'loop without state')
        sty = ' × '.join(env[a] for a in state)
        unpack = ''.join(f'let {a} : {env[a]} := st{proj(i, len(state))};\n{pad}    ' for i, a in enumerate(state))
        benv = dict(env)
        benv[s.target.id] = elt
        tup = '(' + ', '.join(state) + ')'
        body = LoopBody(self, tup, fallible).block(list(s.body), benv, ind + 2)
        after = ''.join(f'let {a} : {env[a]} := st{proj(i, len(state))};\n{pad}' for i, a in enumerate(state))
        cont = self.block(rest, env, ind)
        if fallible:
            return self.wrap(binds,
                             f'Except.bind (List.foldlM (fun (st : {sty}) ({s.target.id} : {elt}) =>\n{pad}    {unpack}{body})\n'
                             f'{pad}  {tup} {ic}) (fun st =>\n{pad}{after}{cont})')
        return self.wrap(binds,
                         f'let st : {sty} := List.foldl (fun (st : {sty}) ({s.target.id} : {elt}) =>\n{pad}    {unpack}{body})\n'
                         f'{pad}  {tup} {ic};\n{pad}{after}{cont}')


class LoopBody:
    """Statement translation inside a loop body: the 'continuation' at the end is the state tuple."""

    def __init__(self, tr, tup, fallible=False):
        self.tr, self.tup, self.fallible = tr, tup, fallible

    def wrap(self, binds, body):
        for v, code in reversed(binds):
            if not self.fallible:
                raise Unsupported(None, 'fallible expression inside a loop')
            body = f'Except.bind ({code}) (fun {v} => {body})'
        return body

    def block(self, stmts, env, ind):
        pad = '  ' * ind
        tr = self.tr
        if not stmts:
            return f'(Except.ok {self.tup})' if self.fallible else self.tup
        s, rest = stmts[0], stmts[1:]
        if isinstance(s, ast.Raise) and self.fallible:
            exc = s.exc
            cls = dotted(exc.func) if isinstance(exc, ast.Call) else dotted(exc)
            return '(Except.error (AmpyErr.ampy ""))' if cls == 'AmpycloudError' else f'(Except.error (AmpyErr.other "{cls}"))'
        if isinstance(s, ast.Expr):
            if isinstance(s.value, ast.Constant):
                return self.block(rest, env, ind)
            d = dotted(s.value.func) if isinstance(s.value, ast.Call) else None
            if d and d.split('.')[0] in ('logger', 'logging'):
                return self.block(rest, env, ind)
            # lst.append(x)  ==  lst += [x]
            if isinstance(s.value, ast.Call) and isinstance(s.value.func, ast.Attribute) \
                    and s.value.func.attr == 'append' and isinstance(s.value.func.value, ast.Name) \
                    and len(s.value.args) == 1:
                aug = ast.AugAssign(target=ast.Name(id=s.value.func.value.id, ctx=ast.Store()), op=ast.Add(),
                                    value=ast.List(elts=[s.value.args[0]], ctx=ast.Load()))
                ast.copy_location(aug, s)
                ast.fix_missing_locations(aug)
                return self.block([aug] + rest, env, ind)
            raise Unsupported(s, 'expression statement in loop')
        if isinstance(s, (ast.Assign, ast.AnnAssign, ast.AugAssign)):
            binds = []
            if isinstance(s, ast.AugAssign):
                name = s.target.id
                val = ast.BinOp(left=ast.Name(id=name, ctx=ast.Load()), op=s.op, right=s.value)
                ast.copy_location(val, s)
                ast.fix_missing_locations(val)
            elif isinstance(s, ast.AnnAssign):
                name, val = s.target.id, s.value
            else:
                if len(s.targets) != 1 or not isinstance(s.targets[0], ast.Name):
                    raise Unsupported(s, 'assignment target in loop')
                name, val = s.targets[0].id, s.value
            vc, vt = tr.expr(val, env, binds)
            if name in env:
                vc, vt = tr.coerce(vc, vt, env[name], s), env[name]
            elif vt in ('List ?', 'None'):
                raise Unsupported(s, f'cannot infer the type of {name}')
            env = dict(env)
            env[name] = vt
            return self.wrap(binds, f'let {name} : {vt} := {vc};\n{pad}{self.block(rest, env, ind)}')
        if isinstance(s, ast.If):
            binds = []
            c, t = tr.expr(s.test, env, binds)
            if t != 'Bool':
                raise Unsupported(s, 'loop condition')
            a = self.block(list(s.body) + rest, dict(env), ind + 1)
            b = self.block(list(s.orelse) + rest, dict(env), ind + 1)
            return self.wrap(binds, f'(if {c} then\n{pad}  {a}\n{pad}else\n{pad}  {b})')
        if isinstance(s, ast.Pass):
            return self.block(rest, env, ind)
        raise Unsupported(s, f'statement {type(s).__name__} in loop')


def proj(i, n):
    """Projection of the i-th component of a right-nested n-tuple `st`."""
    if n == 1:
        return ''
    return '.2' * i + ('.1' if i < n - 1 else '')


def assigned_names(node):
    if isinstance(node, ast.Assign):
        return [t for t in node.targets if isinstance(t, ast.Name)]
    if isinstance(node, (ast.AugAssign, ast.AnnAssign)) and isinstance(node.target, ast.Name):
        return [node.target]
    if isinstance(node, ast.Expr) and isinstance(node.value, ast.Call) and isinstance(node.value.func, ast.Attribute) \
            and node.value.func.attr == 'append' and isinstance(node.value.func.value, ast.Name):
        return [node.value.func.value]
    return []


def dotted(n):
    if isinstance(n, ast.Name):
        return n.id
    if isinstance(n, ast.Attribute):
        b = dotted(n.value)
        return None if b is None else f'{b}.{n.attr}'
    return None


def const_value(n):
    """Value of a literal arithmetic constant expression, or None."""
    try:
        if isinstance(n, ast.Constant) and isinstance(n.value, (int, float)) and not isinstance(n.value, bool):
            return Fraction(repr(n.value)) if isinstance(n.value, float) else Fraction(n.value)
        if isinstance(n, ast.BinOp):
            a, b = const_value(n.left), const_value(n.right)
            if a is None or b is None:
                return None
            if isinstance(n.op, ast.Add):
                return a + b
            if isinstance(n.op, ast.Sub):
                return a - b
            if isinstance(n.op, ast.Mult):
                return a * b
            if isinstance(n.op, ast.Div):
                return a / b if b != 0 else None
        if isinstance(n, ast.UnaryOp) and isinstance(n.op, ast.USub):
            a = const_value(n.operand)
            return None if a is None else -a
    except Exception:
        return None
    return None


def ann_type(a):
    s = ast.unparse(a)
    return {'int': 'Int', 'bool': 'Bool', 'str': 'String', 'float': 'PyFloat', 'list[bool]': 'List Bool',
            'List[bool]': 'List Bool', 'list[int]': 'List Int', 'List[int]': 'List Int'}.get(s)


# ------------------------------------------------------------------------------------------------
# driver
# ------------------------------------------------------------------------------------------------
def find_function(tree, name, cls=None):
    body = tree.body
    if cls is not None:
        body = next((n.body for n in tree.body if isinstance(n, ast.ClassDef) and n.name == cls), [])
    for n in body:
        if isinstance(n, ast.FunctionDef) and n.name == name:
            return n
    return None


def translate_function(src_root: Path, name: str):
    """Returns (lean_text, None) or (None, reason)."""
    spec = SPECS[name]
    path = src_root / 'ampycloud' / spec['file']
    try:
        tree = ast.parse(path.read_text())
    except (OSError, SyntaxError) as e:
        return None, f'cannot parse {path}: {e}'
    fn = find_function(tree, name, spec.get('cls'))
    if fn is None:
        return None, f'no function {name} in {spec["file"]}'
    a = fn.args
    names = [x.arg for x in a.posonlyargs + a.args]
    if spec.get('cls') and names[:1] == ['self']:
        names = names[1:]
    if a.vararg or a.kwarg or a.kwonlyargs:
        return None, 'signature with * / ** / keyword-only arguments'
    # extra parameters are accepted only with a literal default, which is then bound as a local
    env, pre = {}, []
    defaults = dict(zip(reversed(names), reversed(a.defaults)))
    tr = Tr(spec)
    try:
        for p in names:
            if p in spec['params']:
                env[p] = spec['params'][p]
            elif p in defaults:
                c, t = tr.expr(defaults[p], {}, [])
                if t in ('List ?', 'None'):
                    raise Unsupported(fn, f'default of {p}')
                env[p] = t
                pre.append(f'let {p} : {t} := {c}\n  ')
            else:
                raise Unsupported(fn, f'unexpected parameter {p}')
        if set(spec['params']) - set(names):
            raise Unsupported(fn, f'parameters {sorted(set(spec["params"]) - set(names))} missing')
        body = tr.block(list(fn.body), env, 1)
    except Unsupported as e:
        return None, f'{spec["file"]}:{name}: {e}'
    params = ' '.join([f'({e[0]} : {e[1]})' for e in spec.get('externals', {}).values()] +
                      [f'({p} : {t})' for p, t in spec.get('prms', {}).items()] +
                      [f'({p} : {t})' for p, t in spec.get('attrs', {}).items()] +
                      [f'({p} : {t})' for p, t in spec['params'].items()])
    ret = f'Except AmpyErr ({spec["ret"]})' if spec['raises'] else spec['ret']
    text = f'def {LEAN_NAME[name]} {params} : {ret} :=\n  {"".join(pre)}{body}\n'
    return text, None


HEADER = '''import Ampy.Gen.Prelude
/-!
GENERATED by harness/py2lean.py from `{rel}` (function `{name}`) — do not edit.
Regenerated from /repo's working tree on every run of a check; the semantics of the operations used
is `Ampy/Gen/Prelude.lean`.
-/
set_option linter.unusedVariables false
namespace Ampy.Gen
open Ampy Ampy.Py

'''


def module_name(name):
    return 'Src' + ''.join(w.capitalize() for w in LEAN_NAME.get(name, name).split('_'))


def generate(src_root: Path, out_dir: Path):
    """(Re)generate one Lean file per translated function.  Returns {name: {'ok', 'reason', 'changed', 'module',
    'sha'}}.  A function that cannot be translated gets no file (an existing one is removed)."""
    out_dir.mkdir(parents=True, exist_ok=True)
    res = {}
    for name, spec in SPECS.items():
        mod = module_name(name)
        f = out_dir / f'{mod}.lean'
        text, why = translate_function(src_root, name)
        if text is None:
            if f.exists():
                f.unlink()
            res[name] = dict(ok=False, reason=why, changed=True, module=f'Ampy.Gen.{mod}', sha=None)
            continue
        full = HEADER.format(rel=f'src/ampycloud/{spec["file"]}', name=name) + text + '\nend Ampy.Gen\n'
        old = f.read_text() if f.exists() else None
        if old != full:
            f.write_text(full)
        res[name] = dict(ok=True, reason=None, changed=(old != full), module=f'Ampy.Gen.{mod}',
                         sha=hashlib.sha256(full.encode()).hexdigest()[:16])
    return res


if __name__ == '__main__':
    import sys
    root = Path(sys.argv[1] if len(sys.argv) > 1 else '/repo/src')
    out = Path(sys.argv[2] if len(sys.argv) > 2 else Path(__file__).resolve().parent.parent / 'lean/Ampy/Gen')
    for k, v in generate(root, out).items():
        print(k, v)
