"""Dispatch `./check Cxx ...` to harness/props/cxx.py."""
import importlib
import sys

from . import common


def main():
    if len(sys.argv) < 2:
        print('usage: check Cxx [--tier quick|thorough] [--replay PATH]', file=sys.stderr)
        return 2
    prop = sys.argv[1].upper()
    try:
        mod = importlib.import_module(f'harness.props.{prop.lower()}')
    except ModuleNotFoundError as e:
        print(f'no check for {prop}: {e}', file=sys.stderr)
        return 2
    return common.main(prop, mod.run, getattr(mod, 'replay', None), getattr(mod, 'LEVEL', 'proof'))


if __name__ == '__main__':
    sys.exit(main())
