"""A small YAML emitter that writes parameter files the way people write them by hand (DESIGN.md 11.8).

`set_prms` reads user-written YAML, not files produced by a dumper: exponent notation without a dot (`5e4`),
bare words such as `NO`, `yes`, `on` as ceilometer names, `~` for None.  ampycloud documents YAML 1.2 semantics
(ruamel's default): `5e4` is a float, `NO` a string.  The emitter picks among spellings that all mean the intended
value under YAML 1.2; the harness verifies that with ruamel before using a file (so a spelling problem can never
become a false alarm) and falls back to ruamel's own dump otherwise.
"""
from __future__ import annotations

import io
import re

_PLAIN = re.compile(r'^[A-Za-z_][A-Za-z0-9_]*$')
_SPECIAL_12 = {'null', 'Null', 'NULL', 'true', 'True', 'TRUE', 'false', 'False', 'FALSE'}


def _float_spellings(v: float):
    out = [repr(v)]
    if v != v or v in (float('inf'), float('-inf')):
        return out
    m, e = ('%e' % v).split('e')
    m = m.rstrip('0').rstrip('.')
    for s in (f'{m}e{int(e)}', f'{m}E{int(e)}', f'{m}e+{int(e):02d}' if int(e) >= 0 else f'{m}e{int(e)}'):
        try:
            if float(s) == v and s not in out:
                out.append(s)
        except ValueError:
            pass
    return out


def scalar(v, rng):
    if v is None:
        return rng.choice(['null', '~', 'null'])
    if isinstance(v, bool):
        return rng.choice(['true', 'True'] if v else ['false', 'False'])
    if isinstance(v, int):
        return str(v)
    if isinstance(v, float):
        return rng.choice(_float_spellings(v))
    if isinstance(v, str):
        if _PLAIN.match(v) and v not in _SPECIAL_12 and rng.random() < 0.7:
            return v                                   # bare word (NO, yes, on, BIC, delta, ...)
        return "'" + v.replace("'", "''") + "'"
    raise TypeError(type(v))


def emit(d, rng, indent=0):
    lines = []
    pad = '  ' * indent
    for k, v in d.items():
        if isinstance(v, dict):
            if not v:
                lines.append(f'{pad}{k}: {{}}')
            else:
                lines.append(f'{pad}{k}:')
                lines += emit(v, rng, indent + 1)
        elif isinstance(v, (list, tuple)):
            if v and rng.random() < 0.4 and not any(isinstance(x, (list, dict)) for x in v):
                lines.append(f'{pad}{k}:')
                lines += [f'{pad}  - {scalar(x, rng)}' for x in v]
            else:
                lines.append(f'{pad}{k}: [' + ', '.join(scalar(x, rng) for x in v) + ']')
        else:
            lines.append(f'{pad}{k}: {scalar(v, rng)}')
    return lines


def _same(a, b):
    if type(a) is not type(b):
        return False
    if isinstance(a, dict):
        return list(a.keys()) == list(b.keys()) and all(_same(a[k], b[k]) for k in a)
    if isinstance(a, list):
        return len(a) == len(b) and all(_same(x, y) for x, y in zip(a, b))
    return a == b


def write(path, d, rng):
    """Write `d` to `path`; returns 'handwritten' or 'dumper' (which spelling route was used)."""
    from ruamel.yaml import YAML
    how = 'dumper'
    try:
        text = '\n'.join(emit(d, rng)) + '\n' if d else '{}\n'
        back = YAML(typ='safe').load(io.StringIO(text))
        if _same(back if back is not None else {}, d):
            how = 'handwritten'
    except Exception:
        how = 'dumper'
    with open(path, 'w') as fh:
        if how == 'handwritten':
            fh.write('# ampycloud parameters\n' + text)
        else:
            YAML(typ='safe').dump(d, fh)
    return how
