"""C15 — input screening rejects exactly the documented conditions, normalises the rest.

Tie: the real `utils.check_data_consistency` (and `CeiloChunk(...)`) against the Lean model `screen` on
frames built from valid scenes by every single defect and by pairs of defects, plus valid frames in dtype /
column-order / extra-column variants.  Compared: raised or not, exception class, output columns, dtypes
and values, warning kinds on the first and on a second pass, caller's frame untouched.
"""
from __future__ import annotations

import copy
import hashlib
import random
import warnings
from multiprocessing import Pool

import numpy as np
import pandas as pd

from .. import common, scenes, tablecheck

REQ = ['ceilo', 'dt', 'height', 'type']
DEFECTS = ['none', 'none', 'notframe', 'empty', 'drop_col', 'col_into_index', 'col_into_index', 'dup_row', 'dup_after_coercion', 'zero_nonzero_same',
           'zero_nonzero_other', 'vv_nonvv_same', 'vv_nonvv_other', 'vv_zero_same', 'dtypes', 'extra_cols', 'col_order',
           'index_dup', 'dup_with_extra_col', 'dup_via_str_coercion', 'dup_with_extra_col', 'neg_height', 'type0_height', 'type1_nan', 'type2_alone', 'type3_alone',
           'glued_key_legal', 'glued_key_legal', 'same_special_twice_legal', 'same_special_twice_legal']


def build(seed, k):
    rng = random.Random(f'{seed}:c15:{k}')
    rows, _, _ = tablecheck.gen_scene(seed, k, rng.choice(['synth', 'degenerate', 'exact']))
    rows = rows[:rng.choice([3, 8, 30, 200])]
    df = scenes.make_frame(rows)
    defects = [rng.choice(DEFECTS)]
    origin = rng.choice(['fresh', 'fresh', 'checked', 'chunk'])
    if origin != 'fresh':
        # tables derived (concat, copy, slicing, dropped / added columns ...) from something the package itself already
        # screened or holds: whatever came back from an earlier check must be screened like any other table
        try:
            with warnings.catch_warnings():
                warnings.simplefilter('ignore')
                if origin == 'checked':
                    from ampycloud.utils import utils as _u
                    df = _u.check_data_consistency(df)
                else:
                    from ampycloud.data import CeiloChunk as _C
                    df = _C(df).data[REQ]
        except Exception:
            origin = 'fresh'
    defects.append('origin_' + origin)
    if rng.random() < 0.35:
        defects.append(rng.choice(DEFECTS))
    arg = df
    for d in [x for x in defects if not x.startswith('origin_')]:
        if not isinstance(arg, pd.DataFrame):
            break
        df = arg
        n = len(df)
        i = rng.randrange(n) if n else 0
        if not set(REQ) <= set(df.columns) and d not in ('notframe', 'empty', 'extra_cols', 'col_order', 'index_dup', 'col_into_index'):
            continue
        if d == 'notframe':
            arg = rng.choice([None, [1, 2], {'ceilo': ['a']}, np.zeros((2, 4)), 'frame', df.to_dict()])
        elif d == 'empty':
            arg = df.iloc[0:0]
        elif d == 'drop_col':
            arg = df.drop(columns=[rng.choice(REQ)])
        elif d == 'col_into_index':
            # a required column that is not a column: it sits in the index (set_index with the default drop=True), in one
            # level of a MultiIndex, or only its *name* survives as the name of the index
            cs = [c for c in rng.sample(REQ, rng.choice([1, 1, 2])) if c in df.columns]
            how = rng.choice(['set_index', 'set_index', 'rename_axis', 'multi_with_extra'])
            if not cs or 'station' in df.columns or isinstance(df.index, pd.MultiIndex) or df.index.name is not None:
                continue
            try:
                if how == 'set_index':
                    arg = df.set_index(cs if len(cs) > 1 else cs[0])
                elif how == 'rename_axis':
                    arg = df.drop(columns=cs[0]).rename_axis(cs[0])
                else:
                    arg = df.assign(station='x').set_index(['station', cs[0]])
            except Exception:          # pandas refuses the construction: not an input anybody can hand over
                arg = df
        elif d == 'dup_row' and n:
            arg = pd.concat([df, df.iloc[[i]]], ignore_index=rng.random() < 0.5)
        elif d == 'dup_after_coercion' and n:
            # same values, different representation before coercion: 1 vs 1.0 in an object type column
            d2 = df.astype({'type': object, 'dt': object})
            extra = d2.iloc[[i]].copy()
            extra['type'] = float(extra['type'].iloc[0])
            extra['dt'] = rng.choice([float(extra['dt'].iloc[0]), np.float32(extra['dt'].iloc[0])])
            arg = pd.concat([d2, extra], ignore_index=True)
        elif d == 'dup_with_extra_col' and n:
            # a duplicated hit whose copies differ only in a superfluous column (record id, source file, ...)
            arg = pd.concat([df, df.iloc[[i]]], ignore_index=True)
            arg['record_id'] = np.arange(len(arg))
        elif d == 'dup_via_str_coercion' and n:
            # copies that only become identical once 'ceilo' is coerced to str: 7 and '7'
            d2 = df.astype({'ceilo': object})
            r = d2.iloc[i]
            a = scenes.make_frame([('x', float(r['dt']), float(r['height']), int(r['type']))]).astype({'ceilo': object})
            b = a.copy()
            a['ceilo'] = [7]; b['ceilo'] = ['7']
            arg = pd.concat([d2, a, b], ignore_index=True)
        elif d in ('zero_nonzero_same', 'zero_nonzero_other', 'vv_nonvv_same', 'vv_nonvv_other', 'vv_zero_same') and n:
            r = df.iloc[i]
            other = d.endswith('other')
            ceilo = (str(r['ceilo']) + '_other') if other else r['ceilo']
            if d.startswith('zero'):
                new = (ceilo, r['dt'], np.nan, 0) if r['type'] != 0 else (ceilo, r['dt'], 1234.0, 1)
            elif d == 'vv_zero_same':
                new = (ceilo, r['dt'], 400.0, -1) if r['type'] == 0 else (ceilo, r['dt'], np.nan, 0)
            else:
                new = (ceilo, r['dt'], 333.0, -1) if r['type'] != -1 else (ceilo, r['dt'], 4321.0, 1)
            arg = pd.concat([df, scenes.make_frame([new])], ignore_index=True)
        elif d == 'dtypes':
            arg = df.copy()
            if rng.random() < 0.7:
                arg['ceilo'] = arg['ceilo'].astype(object)
            if rng.random() < 0.5 and (arg['dt'] == arg['dt'].round()).all():
                arg['dt'] = arg['dt'].astype(rng.choice(['int64', 'int32', object]))
            if rng.random() < 0.4 and arg['height'].notna().all() and (arg['height'] == arg['height'].round()).all():
                arg['height'] = arg['height'].astype(rng.choice(['int64', object]))
            if rng.random() < 0.7:
                arg['type'] = arg['type'].astype(rng.choice(['float64', 'int8', 'int16', 'int32', object]))
        elif d == 'extra_cols':
            arg = df.copy()
            for name in rng.sample(['station', 'quality', 0, 'height2'], rng.randint(1, 2)):
                arg[name] = rng.choice([1, 'x', 2.5])
        elif d == 'col_order':
            cols = list(df.columns)
            rng.shuffle(cols)
            arg = df[cols]
        elif d == 'index_dup' and n:
            arg = df.copy()
            arg.index = [rng.randrange(max(1, n // 2)) for _ in range(n)]
        elif d == 'neg_height' and n:
            arg = df.copy()
            arg.loc[arg.index[i], ['height', 'type']] = [-50.0, 1] if arg['type'].iloc[i] != 0 else [np.nan, 0]
        elif d == 'glued_key_legal' and n:
            # perfectly legal rows on DIFFERENT ceilometers at DIFFERENT times whose name and time stamp, glued together
            # as text, read the same ('K1'+'15.0' == 'K11'+'5.0'): a non-detection / VV hit next to an ordinary hit
            base_name = rng.choice(['K', '1', 'CL3', 'ceilo-'])
            d1, d2 = rng.choice([('1', '5.0'), ('2', '0.0'), ('1', '2.5'), ('10', '0.0')])
            sep = rng.choice(['', '', '_', ' '])
            ta, tb = float(d1 + d2), float(d2)
            odd = rng.choice([(float('nan'), 0), (350.0, -1)])
            new = [(base_name + sep, ta, odd[0], odd[1]), (base_name + sep + d1, tb, 1200.0, 1)]
            if rng.random() < 0.5:
                new = new[::-1]
            arg = pd.concat([df, scenes.make_frame(new)], ignore_index=True)
        elif d == 'same_special_twice_legal' and n:
            # one ceilometer, one time stamp, two rows of the same special type and nothing else there: two VV hits with
            # different heights, or two type-0 rows of which one carries a height (warning only) - no documented
            # rejection condition applies
            if rng.random() < 0.5:
                new = [('vv2', 777.0, 300.0, -1), ('vv2', 777.0, 450.0, -1)]
            else:
                new = [('nd2', 778.0, float('nan'), 0), ('nd2', 778.0, 800.0, 0)]
            arg = pd.concat([df, scenes.make_frame(new)], ignore_index=True)
        elif d == 'type0_height' and n:
            arg = pd.concat([df, scenes.make_frame([('zz', 12345.0, 800.0, 0)])], ignore_index=True)
        elif d == 'type1_nan' and n:
            arg = pd.concat([df, scenes.make_frame([('zz', 12346.0, np.nan, 1)])], ignore_index=True)
        elif d == 'type2_alone' and n:
            arg = pd.concat([df, scenes.make_frame([('zz', 12347.0, 900.0, 2)])], ignore_index=True)
        elif d == 'type3_alone' and n:
            arg = pd.concat([df, scenes.make_frame([('zz', 12348.0, 900.0, 3)])], ignore_index=True)
    return arg, defects


def to_request(arg):
    """The model's view of the caller's object (cells = what pandas coerces them to)."""
    from ampycloud import hardcoded
    if not isinstance(arg, pd.DataFrame):
        return 'SCREEN notframe'
    secs = [f'SCREEN nrows={len(arg)}', 'IDX ' + ' '.join(str(i) for i in range(len(arg)))]
    for col, name in (('ceilo', 'CEILO'), ('dt', 'DT'), ('height', 'HEIGHT'), ('type', 'TYPE')):
        if col not in arg.columns:
            continue
        req = hardcoded.REQ_DATA_COLS[col]
        exact = arg[col].dtype == req
        with warnings.catch_warnings():
            warnings.simplefilter('ignore')
            vals = arg[col].astype(req)          # pandas' coercion: a third-party answer
        if col == 'ceilo':
            cells = [scenes.tok(v) for v in vals]
        elif col == 'type':
            cells = [str(int(v)) for v in vals]
        else:
            cells = [common.frac(float(v)) for v in vals]
        secs.append(f"{name} {'T' if exact else 'F'} " + ' '.join(cells))
    extra = [scenes.tok(c) for c in arg.columns if c not in REQ]
    secs.append('EXTRA ' + ' '.join(extra))
    return ' | '.join(secs)


WARN_KEYS = [('is not required', 'superfluous'), ('instead of', 'dtype'), ('negative', 'negative-height'),
             ('type=0 hits have non-NaNs', 'type0-with-height'), ('type=1 hits have NaNs', 'type1-nan'),
             ('type=2 hits have no', 'type2-no-type1'), ('type=3 hits have no', 'type3-no-type2')]


def warn_kinds(wl):
    out = []
    for w in wl:
        if w.category.__name__ != 'AmpycloudWarning':
            continue
        msg = str(w.message)
        for key, kind in WARN_KEYS:
            if key in msg:
                if kind == 'dtype':
                    out.append('dtype:' + msg.split()[1])
                elif kind == 'superfluous':
                    out.append('superfluous:' + scenes.tok(msg.split(' is not required')[0][len('Column '):]))
                else:
                    out.append(kind)
                break
    return sorted(out)


def _work(args):
    seed, k = args
    common.import_ampycloud()
    from ampycloud.utils import utils
    from ampycloud.errors import AmpycloudError
    from ampycloud.data import CeiloChunk
    arg, defects = build(seed, k)
    res = {'k': k, 'defects': defects, 'notes': []}
    try:
        res['req'] = to_request(arg)
    except Exception as e:   # not coercible: outside the quantifier
        res['skip'] = f'not coercible: {type(e).__name__}'
        return res
    before = copy.deepcopy(arg)
    # ambient configuration: one case in four with the package loggers effective at DEBUG (records formatted and dropped)
    dbg = common.ambient_debug_for(('c15', k, tuple(defects)))
    res['debug_log'] = bool(dbg)
    with common.debug_logging(dbg), warnings.catch_warnings(record=True) as wl:
        warnings.simplefilter('always')
        try:
            out = utils.check_data_consistency(arg)
            res['impl'] = 'ok'
        except AmpycloudError:
            res['impl'], out = 'error', None
        except Exception as e:
            res['impl'], out = f'other:{type(e).__name__}', None
    res['warn'] = warn_kinds(wl)
    # caller's object untouched
    try:
        same = before.equals(arg) and list(before.columns) == list(arg.columns) and \
            list(before.dtypes) == list(arg.dtypes) and before.index.equals(arg.index) \
            if isinstance(arg, pd.DataFrame) else True
    except Exception:
        same = True
    res['arg_untouched'] = bool(same)
    if out is not None:
        res['cols'] = [str(c) for c in out.columns]
        from ampycloud import hardcoded
        res['dtypes_ok'] = all(out[c].dtype == t for c, t in hardcoded.REQ_DATA_COLS.items() if c in out.columns)
        res['rows'] = ' ; '.join(f'{scenes.tok(c)} {common.frac(float(dt))} {common.frac(float(h))} {int(t)}'
                                 for c, dt, h, t in zip(out['ceilo'], out['dt'], out['height'], out['type'])) \
            if set(REQ) <= set(out.columns) else '?'
        res['new_object'] = out is not arg
        with warnings.catch_warnings(record=True) as wl2:
            warnings.simplefilter('always')
            try:
                out2 = utils.check_data_consistency(out)
                res['second'] = 'ok' if out2.equals(out) and list(out2.dtypes) == list(out.dtypes) else 'changed'
            except Exception as e:
                res['second'] = f'raised:{type(e).__name__}'
        res['warn2'] = warn_kinds(wl2)
    # chunk construction must agree with the check
    with common.debug_logging(dbg), warnings.catch_warnings():
        warnings.simplefilter('ignore')
        try:
            CeiloChunk(arg)
            res['construct'] = 'ok'
            if isinstance(arg, pd.DataFrame) and 'height' in arg.columns:
                # ... and with an MSA inside the data (the crop must not turn an accepted table into a refused one)
                hs_ = sorted(float(x) for x in pd.to_numeric(arg['height'], errors='coerce').dropna())
                if hs_:
                    CeiloChunk(arg, prms={'MSA': hs_[len(hs_) // 2] - 1.0, 'MSA_HIT_BUFFER': 0})
                    CeiloChunk(arg, prms={'MSA': 0, 'MSA_HIT_BUFFER': 0})
        except AmpycloudError:
            res['construct'] = 'error'
        except Exception as e:
            res['construct'] = f'other:{type(e).__name__}'
    res['digest'] = hashlib.sha1(res['req'].encode()).hexdigest()[:16]
    return res


def run(chk):
    n = 1500 if chk.tier == 'quick' else 12000
    chk.rule = ('frames built from valid scenes by one or two defects out of: ' + ', '.join(sorted(set(DEFECTS))) +
                '; non-trivial = at least one defect applied; distinct by the protocol rendering of the frame')
    with Pool(16) as pool:
        results = pool.map(_work, [(chk.seed, k) for k in range(n)], chunksize=8)
    live = [r for r in results if 'req' in r and 'skip' not in r]
    answers = chk.driver.ask([r['req'] for r in live])
    for r in results:
        if 'skip' in r:
            chk.count('skipped_' + r['skip'])
    for r, ans in zip(live, answers):
        for d in r['defects']:
            chk.count('defect_' + d)
        chk.count('impl_' + r['impl'])
        replay = {'gen': {'seed': chk.seed, 'k': r['k']}, 'defects': r['defects']}
        chk.case(r['digest'], nontrivial=any(d != 'none' and not d.startswith('origin_') for d in r['defects']),
                 sample={'k': r['k'], 'defects': r['defects'], 'impl': r['impl'], 'warnings': r['warn']} if r['k'] < 6 else None)
        if ans.startswith('SCREEN bad-request'):
            chk.mismatch('what the implementation produced cannot be expressed as a model request (driver: bad-request)', ans[:200], replay)
            continue
        spec_guard = 'SPEC C15.rejects-iff' in ans
        ans = ans.split('; SPEC')[0]
        model = 'error' if ans.startswith('SCREEN error') else 'ok'
        if spec_guard:
            chk.mismatch('driver guard: documented refusal list vs model', ans[:100], replay)
        if r['impl'].startswith('other:'):
            chk.spec_fail('C15.error-is-AmpycloudError', f"raised {r['impl']} for defects {r['defects']}", replay)
            continue
        if r['impl'] != model:
            chk.mismatch('screen = check_data_consistency (raise or not)', f"impl {r['impl']} model {model}", replay)
            # the model's verdict is the documented list (theorem C15_rejects_iff): a differing verdict is a failure
            chk.spec_fail('C15.rejects-exactly-the-documented-conditions',
                          f"impl {r['impl']}, documented list says {model}; defects {r['defects']}", replay)
            continue
        if r['construct'] != r['impl']:
            chk.spec_fail('C15.chunk-construction-follows-the-check', f"check {r['impl']} construct {r['construct']}", replay)
        if not r['arg_untouched']:
            chk.spec_fail('C15.argument-untouched', f"defects {r['defects']}", replay)
        if model == 'ok':
            body = ans[len('SCREEN ok '):]
            mrows, _, mwarn = body.partition(' | ')
            if sorted(r['cols']) != sorted(REQ) or not r['dtypes_ok']:
                chk.spec_fail('C15.four-columns-required-dtypes', f"cols {r['cols']} dtypes_ok {r['dtypes_ok']}", replay)
            if r['rows'] != mrows.strip():
                chk.mismatch('screen output values = check_data_consistency output values', 'rows differ', replay)
                chk.spec_fail('C15.values-unchanged', 'output rows differ from the (coerced) input rows', replay)
            if sorted(mwarn.split()) != r['warn']:
                chk.mismatch('warning kinds', f"impl {r['warn']} model {sorted(mwarn.split())}", replay)
            if not r.get('new_object', True):
                chk.spec_fail('C15.returns-a-new-frame', 'same object returned', replay)
            if r.get('second') != 'ok':
                chk.spec_fail('C15.idempotent', f"second pass: {r.get('second')}", replay)
            if any(w.startswith(('dtype:', 'superfluous:')) for w in r.get('warn2', [])):
                chk.spec_fail('C15.second-pass-warns-about-no-column-or-dtype', str(r['warn2']), replay)
    return None


def replay(chk, obj):
    case = obj.get('case') or (obj.get('broken_correspondence') or [{}])[0].get('case')
    g = case['gen']
    r = _work((g['seed'], g['k']))
    ans = chk.driver.ask([r['req']])[0] if 'req' in r else 'n/a'
    print({k: v for k, v in r.items() if k not in ('req', 'rows')})
    print('model:', ans[:300])
    model = 'error' if ans.startswith('SCREEN error') else 'ok'
    return 0 if (r.get('impl') == model and r.get('arg_untouched') and r.get('construct') == r.get('impl')
                 and (model == 'error' or r.get('second') == 'ok')) else 1
