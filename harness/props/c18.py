"""C18 — WMO conversions (perc2okta, okta2code, height2code).

Tie: the real functions against the Lean models over exact rationals and the Lean spec predicates.
 * perc2okta: every (n, M), 0 <= n <= M <= Mmax through the array path (one call per M) and, for
   M <= Mscalar, through the scalar path with Python float and numpy float64 arguments; values outside
   [0, 100] and NaN must raise AmpycloudError.
 * okta2code: integers -2..11, bools, float, numpy integer, str, None.
 * height2code: a regular grid on [0, 10^5) plus every coding boundary with its binary64 neighbours.
"""
from multiprocessing import Pool

from .. import common

_amp = None


def _wmo():
    global _amp
    if _amp is None:
        _amp = common.import_ampycloud()
    from ampycloud import wmo
    return wmo


def _exc_name(e):
    from ampycloud.errors import AmpycloudError
    return 'AmpycloudError' if isinstance(e, AmpycloudError) else f'other:{type(e).__name__}'


def _row_array(M):
    """perc2okta on the array [n/M*100 for n in 0..M]."""
    import numpy as np
    wmo = _wmo()
    try:
        n = np.arange(0, M + 1)
        arg = n / M * 100
        out = wmo.perc2okta(arg)
        first = [int(k) for k in out]
        try:
            out[...] = 13
        except (ValueError, TypeError):
            pass
        second = [int(k) for k in wmo.perc2okta(arg)]
        if second != first:
            return M, 'array', 'answer-depends-on-earlier-calls'
        return M, 'array', first
    except Exception as e:
        return M, 'array', _exc_name(e)


def _row_container(dt):
    """perc2okta on the whole percentages 0..100 held in an array of the given dtype (the values are what counts, not
    the width or kind of the container): the row n = 0..100 of M = 100."""
    import numpy as np
    wmo = _wmo()
    try:
        out = wmo.perc2okta(np.arange(0, 101).astype(dt))
        return 100, f'array[{dt}]', [int(k) for k in out]
    except Exception as e:
        return 100, f'array[{dt}]', _exc_name(e)


def _row_scalar(M):
    import numpy as np
    wmo = _wmo()
    outs = []
    for n in range(M + 1):
        try:
            a = wmo.perc2okta(n / M * 100)                # Python float
            b = wmo.perc2okta(np.int64(n) / M * 100)      # numpy float64, as metarize produces it
            ka, kb = int(a[0]), int(b[0])
            outs.append(ka if ka == kb and len(a) == 1 and len(b) == 1 else f'scalar-paths-differ:{ka}/{kb}')
            # what a caller does with the answer is the caller's business: the array handed out is overwritten in
            # place here, and the same question is asked again below (an answer must not depend on earlier answers)
            try:
                a[...] = 13
                b[...] = 13
            except (ValueError, TypeError):
                pass
        except Exception as e:
            outs.append(_exc_name(e))
    for n in range(M, -1, -1):
        if not isinstance(outs[n], int):
            continue
        try:
            again = wmo.perc2okta(n / M * 100)
            k2 = int(again[0])
            again[...] = 77
        except Exception as e:
            k2 = _exc_name(e)
        if k2 != outs[n]:
            outs[n] = f'answer-depends-on-earlier-calls:{outs[n]}/{k2}'
    return M, 'scalar', outs


def _h2c_block(args):
    lo, hi, step_num, step_den = args
    wmo = _wmo()
    from fractions import Fraction
    res = []
    k = 0
    while True:
        h = float(Fraction(lo) + Fraction(step_num, step_den) * k)
        if h >= hi:
            break
        try:
            res.append((h, wmo.height2code(h)))
        except Exception as e:
            res.append((h, 'EXC:' + _exc_name(e)))
        k += 1
    return res


def _check_rows(chk, rows):
    req = []
    for M, path, ks in rows:
        req.append(f'P2OROW {M}')
        if isinstance(ks, list) and all(isinstance(k, int) for k in ks):
            req.append(f"SPEC18ROW {M} {' '.join(map(str, ks))}")
        else:
            req.append('SPEC18ROW 0')  # guaranteed FAIL marker below
    ans = chk.driver.ask(req)
    for i, (M, path, ks) in enumerate(rows):
        model, spec = ans[2 * i], ans[2 * i + 1]
        ok_all = isinstance(ks, list) and all(isinstance(k, int) for k in ks)
        impl = 'P2OROW ' + ' '.join(f'ok {k}' for k in ks) if ok_all else f'P2OROW {ks}'
        for n in range(M + 1):
            chk.case(('p2o', path, n, M), nontrivial=(0 < n < M),
                     sample={'fn': 'perc2okta', 'path': path, 'n': n, 'M': M,
                             'impl': ks[n] if isinstance(ks, list) else ks} if (n * 7 + M) % 40009 == 0 else None)
        chk.count(f'perc2okta_{path}_pairs', M + 1)
        if model != impl:
            # locate the first differing n
            mt = model.split()[1:]
            mk = [mt[2 * j + 1] for j in range(len(mt) // 2)]
            bad = [n for n in range(M + 1) if not ok_all or str(ks[n]) != mk[n]] if isinstance(ks, list) else [0]
            n0 = bad[0] if bad else 0
            chk.mismatch(f'perc2oktaNM = wmo.perc2okta ({path} path)',
                         f'M={M} first differing n={n0}: impl {ks[n0] if isinstance(ks, list) else ks} model {mk[n0] if n0 < len(mk) else "?"}',
                         {'fn': 'perc2okta', 'path': path, 'n': n0, 'M': M})
        if not ok_all or spec != 'SPEC18ROW ok':
            # find the n that breaks the spec
            n0 = 0
            if ok_all:
                a2 = chk.driver.ask([f'SPEC18OKTA {n} {M} {ks[n]}' for n in range(M + 1)])
                badn = [n for n in range(M + 1) if a2[n] != 'SPEC18OKTA ok']
                mono = [n for n in range(M) if ks[n] > ks[n + 1]]
                n0 = (badn or mono or [0])[0]
            chk.spec_fail('C18 perc2okta: 0 iff n=0, 8 iff n=M, nearest clipped 1..7, monotone, never raises in range',
                          f'M={M} n={n0} ({path} path): {ks[n0] if ok_all else ks}',
                          {'fn': 'perc2okta', 'path': path, 'n': n0, 'M': M})


def _check_heights(chk, pts):
    req = []
    for h, code in pts:
        req.append(f'H2C {common.frac(h)}')
        req.append(f'SPEC18H {common.frac(h)} {code if code else "-"}')
    ans = chk.driver.ask(req)
    prev = None
    for i, (h, code) in enumerate(pts):
        model, spec = ans[2 * i], ans[2 * i + 1]
        chk.case(('h2c', h), nontrivial=True,
                 sample={'fn': 'height2code', 'h': h, 'impl': code} if i % 30011 == 0 else None)
        if model != f'H2C [{code}]':
            chk.mismatch('height2code = wmo.height2code', f'h={h!r}: impl {code!r} model {model}',
                         {'fn': 'height2code', 'h': common.frac(h)})
        if spec != 'SPEC18H ok':
            chk.spec_fail('C18 height2code: three-digit floor to 100 ft (1000 ft above 10000 ft), never above the input',
                          f'h={h!r}: {code!r}', {'fn': 'height2code', 'h': common.frac(h)})
        if prev is not None and prev[0] <= h and code.isdigit() and prev[1].isdigit() and int(prev[1]) > int(code):
            chk.spec_fail('C18 height2code non-decreasing', f'{prev[0]!r}->{prev[1]} but {h!r}->{code}',
                          {'fn': 'height2code', 'h': common.frac(h), 'h_prev': common.frac(prev[0])})
        prev = (h, code)
    chk.count('height2code_points', len(pts))


def _okta2code_cases():
    import numpy as np
    cases = [('int', n, n) for n in range(-2, 12)]
    cases += [('bool', 'True', True), ('bool', 'False', False)]
    cases += [('float', '2', 2.0), ('float', '5/2', 2.5), ('npint', 2, np.int64(2)), ('npint', 8, np.int8(8)),
              ('str', '2', '2'), ('none', '-', None), ('float', '0', np.float64(0.0))]
    return cases


def run(chk):
    import numpy as np
    wmo = _wmo()
    quick = chk.size_tier == 'quick'
    Mmax = 512 if quick else 4096
    Mscalar = 96 if quick else 1024
    chk.rule = (f'perc2okta: all (n, M) with 0<=n<=M<={Mmax} (array path) and M<={Mscalar} (scalar paths, Python float and '
                'numpy float64), plus out-of-range/NaN inputs; okta2code: ints -2..11 and non-int types; height2code: '
                f"{'1-ft' if quick else '0.01-ft'} grid on [0,1e5) + every multiple of 100 (<=10000) / 1000 (>10000) with 3 "
                'binary64 neighbours each side; non-trivial = 0<n<M for perc2okta, every height point; distinct by input')
    chk.exhaustive = True
    with Pool(16) as pool:
        rows = pool.map(_row_array, range(1, Mmax + 1), chunksize=8)
        rows += pool.map(_row_scalar, range(1, Mscalar + 1), chunksize=4)
        rows += [_row_container(dt) for dt in ('int8', 'uint8', 'int16', 'uint16', 'int32', 'int64', 'float32', 'float64')]
        _check_rows(chk, rows)
        # heights
        if quick:
            blocks = [(lo, lo + 5000, 1, 1) for lo in range(0, 100000, 5000)]
        else:
            blocks = [(lo, lo + 500, 1, 100) for lo in range(0, 100000, 500)]
        for res in pool.imap(_h2c_block, blocks, chunksize=1):
            _check_heights(chk, res)
    # boundaries and their float neighbours
    pts = []
    bounds = list(range(0, 10001, 100)) + list(range(11000, 100001, 1000))
    for b in bounds:
        xs = [float(b)]
        lo = hi = float(b)
        for _ in range(3):
            lo = float(np.nextafter(lo, -np.inf)); hi = float(np.nextafter(hi, np.inf))
            xs += [lo, hi]
        for x in sorted(xs):
            if 0 <= x < 100000:
                try:
                    pts.append((x, wmo.height2code(x)))
                except Exception as e:
                    pts.append((x, 'EXC:' + _exc_name(e)))
    chk.count('height2code_boundary_points', len(pts))
    _check_heights(chk, pts)
    # integer and numpy scalar heights
    ipts = []
    for v in [0, 99, 100, 9999, 10000, 10001, 10999, 11000, 99999]:
        for conv in (int, np.int64, np.float32):
            try:
                ipts.append((float(conv(v)), wmo.height2code(conv(v))))
            except Exception as e:
                ipts.append((float(v), 'EXC:' + _exc_name(e)))
    _check_heights(chk, sorted(ipts))
    try:
        nan_code = wmo.height2code(float('nan'))
    except Exception as e:
        nan_code = 'EXC:' + _exc_name(e)
    chk.case(('h2c', 'nan'))
    if chk.driver.ask(['H2C nan'])[0] != f'H2C [{nan_code}]':
        chk.mismatch('height2code(NaN)', f'impl {nan_code!r}', {'fn': 'height2code', 'h': 'nan'})
    # out-of-range percentages
    bad = [-1e-9, -1.0, 100.00000001, 101.0, 1e9, float('nan'), float('inf'), -float('inf'),
           float(np.nextafter(100.0, np.inf)), float(np.nextafter(0.0, -np.inf))]
    for p in bad:
        chk.case(('p2o-bad', repr(p)))
        try:
            out = wmo.perc2okta(p)
            got = f'ok {int(out[0])}'
        except Exception as e:
            got = _exc_name(e)
        chk.count('perc2okta_out_of_range')
        if got != 'AmpycloudError':
            chk.spec_fail('C18 perc2okta refuses values outside [0,100]', f'p={p!r}: {got}',
                          {'fn': 'perc2okta_bad', 'p': repr(p)})
    try:
        arr = wmo.perc2okta(np.array([0.0, 50.0, 100.5]))
        got = 'ok'
    except Exception as e:
        got = _exc_name(e)
    if got != 'AmpycloudError':
        chk.spec_fail('C18 perc2okta refuses values outside [0,100]', f'array with 100.5: {got}',
                      {'fn': 'perc2okta_bad', 'p': 'array[0,50,100.5]'})
    # okta2code
    cases = _okta2code_cases()
    ans = chk.driver.ask([f'O2C {k} {tok}' for k, tok, _ in cases])
    for (k, tok, val), model in zip(cases, ans):
        chk.case(('o2c', k, tok))
        chk.count('okta2code_values')
        try:
            out = wmo.okta2code(val)
            got = f'O2C ok {out}'
        except Exception as e:
            got = f'O2C {_exc_name(e)}'
        if got != model:
            chk.mismatch('okta2code = wmo.okta2code', f'{k} {tok}: impl {got} model {model}',
                         {'fn': 'okta2code', 'kind': k, 'tok': str(tok)})
            # the table is the spec (C18_okta2code_table): a differing answer is a property failure
            chk.spec_fail('C18 okta2code table / refusals', f'{k} {tok}: {got}, required {model}',
                          {'fn': 'okta2code', 'kind': k, 'tok': str(tok)})
    return None


def replay(chk, obj):
    import numpy as np
    wmo = _wmo()
    case = obj.get('case') or (obj.get('broken_correspondence') or [{}])[0].get('case')
    fn = case['fn']
    if fn == 'perc2okta':
        n, M = case['n'], case['M']
        try:
            k = int(wmo.perc2okta(n / M * 100)[0]) if case['path'] == 'scalar' else int(wmo.perc2okta(np.arange(M + 1) / M * 100)[n])
            impl = f'ok {k}'
        except Exception as e:
            impl, k = _exc_name(e), None
        model = chk.driver.ask([f'P2O {n} {M}'])[0]
        spec = chk.driver.ask([f'SPEC18OKTA {n} {M} {k}'])[0] if k is not None else 'FAIL (raised)'
        print(f'perc2okta n={n} M={M}: implementation {impl}; model {model}; spec {spec}')
        return 0 if (model == f'P2O {impl}' and spec.endswith('ok')) else 1
    if fn == 'height2code':
        h = float(common.parse_frac(case['h'])) if case['h'] != 'nan' else float('nan')
        code = wmo.height2code(h)
        a = chk.driver.ask([f'H2C {case["h"]}'] + ([f'SPEC18H {case["h"]} {code or "-"}'] if case['h'] != 'nan' else []))
        print(f'height2code({h!r}) = {code!r}; model {a[0]}; spec {a[1:] or "n/a"}')
        return 0 if (a[0] == f'H2C [{code}]' and all(x.endswith('ok') for x in a[1:])) else 1
    if fn == 'perc2okta_bad':
        print('re-run the quick check: out-of-range inputs are fixed constants')
        return 1
    if fn == 'okta2code':
        vals = {(k, str(t)): v for k, t, v in _okta2code_cases()}
        v = vals[(case['kind'], case['tok'])]
        try:
            got = f'O2C ok {wmo.okta2code(v)}'
        except Exception as e:
            got = f'O2C {_exc_name(e)}'
        model = chk.driver.ask([f"O2C {case['kind']} {case['tok']}"])[0]
        print(f'okta2code({v!r}): implementation {got}; model {model}')
        return 0 if got == model else 1
    return 2
