"""C09 — results are bit-for-bit reproducible and the global random state is left alone (level: other, partial).

Proof part: the effect discipline (C09_* theorems: tmp_seed restores the state whatever the body does;
ampycloud's operations never change the global state along any history; processing is a function).
Sampled on the real code (search, not proof):
 * every scene is processed under different prior global RNG states and after different earlier runs in the
   same process: SHA-256 over data, id columns, three tables and messages (floats as exact fractions) must
   agree bit for bit; the base run is tied to the model by a RUN request;
 * the digest of `np.random.get_state()` before / after every API operation (construction, the three stages,
   metarize, metar_msg, run, metar, demo, canonical_demo_data, tmp_seed with a normal and with a raising
   body) must be equal;
 * fresh processes with different PYTHONHASHSEED (quick: 2 processes x few scenes; thorough: 4 x many) must
   give the same digests (numerical-library thread counts pinned to 1).
`utils.mocker.mock_layers` is a random data generator whose contract is to draw from the global state; it is
not a processing operation and is not checked for state preservation (canonical_demo_data, which wraps it in
tmp_seed, is).
"""
from __future__ import annotations

import hashlib
import json
import os
import random
import subprocess
import sys
import warnings
from multiprocessing import Pool

import numpy as np

from .. import common, metamorph, pipecheck, scenes


def rng_digest():
    st = np.random.get_state()
    h = hashlib.sha256()
    h.update(str(st[0]).encode()); h.update(st[1].tobytes()); h.update(repr(st[2:]).encode())
    return h.hexdigest()


def scene_digest(obs):
    return hashlib.sha256(json.dumps(metamorph.observe(obs), sort_keys=True, default=str).encode()).hexdigest()


def big_scene(rng):
    """A long, dense record (four ceilometers, 300 time steps, two noisy decks): sets of more than a thousand hits."""
    rows = []
    n = 300
    for c in range(4):
        for i in range(n):
            dt = -3600.0 + 12.0 * i + 3.0 * c
            hs = sorted({round(1500 + 40 * c + rng.gauss(0, 60), 1), round(2300 + rng.gauss(0, 90), 1)} if rng.random() < 0.9
                        else {round(1500 + rng.gauss(0, 60), 1)})
            for t, h in enumerate(hs):
                rows.append((str(c), dt, float(h), t + 1))
    return rows, {'MIN_SEP_VALS': [100, 1000]}, {'family': 'big'}


def pick_scene(seed, k):
    rng = random.Random(f'{seed}:c09:{k}')
    if k % 40 == 7:
        return big_scene(rng)
    if k % 8 == 3:
        # quantised decks whose seeded mixture fit leaves a component empty (corpus of pipecheck.EMPTYCOMP_KS)
        return pipecheck.gen_scene(seed, k, 'emptycomp')
    fam = rng.choice(['split', 'split', 'synth', 'chain', 'multi', 'bundle', 'degenerate', 'splitq', 'splitq', 'splitq'])
    return pipecheck.gen_scene(seed, k, fam)


def _work(args):
    seed, k = args
    amp = common.import_ampycloud()
    from ampycloud.utils import mocker, utils
    from ampycloud.data import CeiloChunk
    rows, prms, meta = pick_scene(seed, k)
    findings = []
    with warnings.catch_warnings():
        warnings.simplefilter('ignore')
        # (1) reproducibility under prior RNG states and earlier runs
        np.random.seed(1000 + k)
        if k % 4 == 1:
            # the SAME hits under per-call parameters differing in a few leaves, processed BEFORE the judged run: a
            # result keyed on the data alone and kept across runs makes the judged run differ from the fresh-process
            # reference (scenes with small k are re-processed in fresh interpreters below)
            scenes.run_scene(rows, pipecheck.twin_prms(random.Random(f'{seed}:c09twin:{k}'), prms, k // 2))
        base = scenes.run_scene(rows, prms)
        d0 = scene_digest(base)
        np.random.seed(7 * k + 3); np.random.random(17)
        other_rows, other_prms, _ = pick_scene(seed, k + 100000)
        scenes.run_scene(other_rows, other_prms)                  # something else processed in between
        if k % 2 == 1:
            # ... and the SAME hits under per-call parameters differing in a few leaves (a result keyed on the data
            # alone and kept across runs would make the next run depend on this one)
            scenes.run_scene(rows, pipecheck.twin_prms(random.Random(f'{seed}:c09twin:{k}'), prms, k // 2))
        amp.demo() if k % 7 == 0 else None
        d1 = scene_digest(scenes.run_scene(rows, prms))
        np.random.seed(None)
        d2 = scene_digest(scenes.run_scene(rows, prms))
        if not (d0 == d1 == d2):
            findings.append(('C09.bit-identical-under-prior-state-and-history', f'digests {d0[:10]} {d1[:10]} {d2[:10]}'))
        # (2) the global state is left alone by every API operation
        df = scenes.make_frame(rows)

        def guarded(name, fn):
            np.random.seed(4242 + k)
            np.random.random(3)
            if k % 2:
                np.random.normal()            # leaves a cached Gaussian in the legacy global state (has_gauss = 1)
            before = rng_digest()
            try:
                fn()
            except Exception:
                pass
            if rng_digest() != before:
                findings.append(('C09.global-random-state-untouched', f'{name} changed np.random state'))

        chunk_holder = {}
        guarded('CeiloChunk()', lambda: chunk_holder.setdefault('c', CeiloChunk(df, prms=dict(prms))))
        if 'c' in chunk_holder:
            c = chunk_holder['c']
            guarded('find_slices', c.find_slices)
            guarded('find_groups', c.find_groups)
            guarded('find_layers', c.find_layers)
            guarded('metarize(layers)', lambda: c.metarize('layers'))
            guarded('metar_msg', c.metar_msg)
        guarded('run', lambda: amp.run(df, prms=dict(prms)))
        if k % 5 == 0:
            guarded('metar', lambda: amp.metar(df))
            guarded('canonical_demo_data', mocker.canonical_demo_data)
        if k % 11 == 0:
            guarded('demo', amp.demo)

        def tmp_ok():
            with utils.tmp_seed(k):
                np.random.random(5)

        def tmp_raise():
            with utils.tmp_seed(k):
                np.random.random(5)
                raise RuntimeError('body raises')
        guarded('tmp_seed(normal body)', tmp_ok)
        guarded('tmp_seed(raising body)', tmp_raise)

        class _Stop(BaseException):
            pass

        for exc in (KeyboardInterrupt, SystemExit, GeneratorExit, _Stop):
            def tmp_base(exc=exc):
                try:
                    with utils.tmp_seed(k + 1):
                        np.random.random(3)
                        raise exc()
                except BaseException:            # whatever leaves the body (Ctrl-C, sys.exit(), a closed generator)
                    pass
            guarded(f'tmp_seed(body left by {exc.__name__})', tmp_base)

        def tmp_gen():
            def g():
                with utils.tmp_seed(k + 2):
                    yield np.random.random()
                    yield np.random.random()
            it = g(); next(it); it.close()      # a generator closed early: GeneratorExit inside the with block
        guarded('tmp_seed(inside a generator closed early)', tmp_gen)
        # the public mixture routine with an explicit seed (every int is a seed, 0 included): same answer whatever the prior
        # state, and the state left alone
        from ampycloud import layer
        hs = np.array(sorted({r[2] for r in rows if r[2] == r[2]}), dtype=float)
        if len(hs) >= 6 and k % 3 == 0:
            for sd in (0, 1, 42):
                outs = []
                for prior in (11, 12):
                    np.random.seed(prior + k); np.random.random(prior)
                    before = rng_digest()
                    try:
                        n_, ids_, sc_ = layer.ncomp_from_gmm(hs.copy(), min_sep=0, random_seed=sd)
                        outs.append((int(n_), np.asarray(ids_).tobytes(), None if sc_ is None else np.asarray(sc_).tobytes()))
                    except Exception as e:
                        outs.append(('raised', type(e).__name__))
                    if rng_digest() != before:
                        findings.append(('C09.global-random-state-untouched', f'layer.ncomp_from_gmm(random_seed={sd}) changed np.random state'))
                if outs[0] != outs[1]:
                    findings.append(('C09.bit-identical-under-prior-state-and-history',
                                     f'layer.ncomp_from_gmm(random_seed={sd}) depends on the prior global state'))
        # the seeded body sees the same numbers whatever the prior state
        np.random.seed(1)
        with utils.tmp_seed(99):
            a = np.random.random(4).tobytes()
        np.random.seed(2)
        with utils.tmp_seed(99):
            b = np.random.random(4).tobytes()
        if a != b:
            findings.append(('C09.tmp_seed-body-independent-of-prior-state', 'draws differ'))
    req = scenes.run_request(base) if not base['exc'] else None
    return {'k': k, 'family': meta['family'], 'digest': d0, 'findings': findings, 'req': req,
            'gmm': bool(base['trace'].gmm), 'msgs': metamorph.observe(base).get('msgs')}


def _subprocess_digests(seed, ks, hashseed):
    code = ('import sys, json; sys.path.insert(0, %r); from harness.props import c09; '
            'print(json.dumps(c09.child(%d, %r)))' % (str(common.VERIF), seed, ks))
    env = dict(os.environ, PYTHONHASHSEED=str(hashseed), OMP_NUM_THREADS='1', OPENBLAS_NUM_THREADS='1', MKL_NUM_THREADS='1')
    r = subprocess.run([sys.executable, '-c', code], capture_output=True, text=True, env=env, timeout=3600, cwd=str(common.VERIF))
    if r.returncode != 0:
        raise common.InfraError('child process failed: ' + r.stderr[-400:])
    return json.loads(r.stdout.strip().splitlines()[-1])


def child(seed, ks):
    common.import_ampycloud()
    out = {}
    with warnings.catch_warnings():
        warnings.simplefilter('ignore')
        for k in ks:
            rows, prms, _ = pick_scene(seed, k)
            out[str(k)] = scene_digest(scenes.run_scene(rows, prms))
    return out


def run(chk):
    quick = chk.tier == 'quick'
    n = 160 if quick else 2400
    n_proc_scenes = 40 if quick else 400
    hashseeds = [0, 12345] if quick else [0, 1, 12345, 987654321]
    chk.rule = (f'{n} scenes (families split/synth/chain/multi/bundle/degenerate) each processed 3 times in-process under '
                'different prior numpy RNG states and after other runs (every second scene also after a run on the same hits with a few parameter leaves changed); RNG-state digest before/after every API operation incl. '
                f'canonical_demo_data and tmp_seed with a raising body; {n_proc_scenes} scenes re-processed in '
                f'{len(hashseeds)} fresh processes with PYTHONHASHSEED in {hashseeds}; non-trivial = the mixture model was engaged; '
                'distinct by result digest')
    with Pool(16) as pool:
        results = pool.map(_work, [(chk.seed, k) for k in range(n)], chunksize=2)
    live = [r for r in results if r.get('req')]
    answers = dict(zip([r['k'] for r in live], chk.driver.ask([r['req'] for r in live])))
    by_k = {}
    for r in results:
        by_k[r['k']] = r['digest']
        replay = {'gen': {'seed': chk.seed, 'k': r['k']}}
        chk.count('family_' + r['family'])
        if r['gmm']:
            chk.count('mixture_engaged')
        chk.case(r['digest'], nontrivial=r['gmm'], sample={'k': r['k'], 'family': r['family'], 'messages': r['msgs'],
                                                          'sha256': r['digest'][:16]} if r['k'] < 4 else None)
        for clause, detail in r['findings']:
            chk.spec_fail(clause, detail, replay)
        if r['k'] in answers:
            a = scenes.parse_run_answer(answers[r['k']])
            for ne in a['ne']:
                chk.mismatch('cascade model = implementation', ne[:300], replay)
    ks = list(range(n_proc_scenes))
    for hs in hashseeds:
        got = _subprocess_digests(chk.seed, ks, hs)
        chk.count('fresh_process_runs', len(got))
        for k in ks:
            if got[str(k)] != by_k[k]:
                chk.spec_fail('C09.bit-identical-across-processes-and-hash-seeds',
                              f'scene {k}: PYTHONHASHSEED={hs} gives {got[str(k)][:12]} vs in-process {by_k[k][:12]}',
                              {'gen': {'seed': chk.seed, 'k': k}, 'hashseed': hs})
    chk.explanation = ('Proved: the effect discipline of the model (tmp_seed restores the global state for every body, raising or '
                       'not; no API operation changes it along any history; processing is a function of data, parameters and '
                       'kernel answers, independent of other chunks). Sampled, not proved: bit-for-bit determinism of scikit-learn / '
                       'statsmodels / numpy / pandas themselves across prior RNG states, earlier runs, processes and hash seeds.')
    return None


def replay(chk, obj):
    case = obj.get('case') or (obj.get('broken_correspondence') or [{}])[0].get('case')
    g = case['gen']
    r = _work((g['seed'], g['k']))
    print({k: v for k, v in r.items() if k != 'req'})
    bad = bool(r['findings'])
    if 'hashseed' in case:
        got = _subprocess_digests(g['seed'], [g['k']], case['hashseed'])
        print('fresh process:', got)
        bad = bad or got[str(g['k'])] != r['digest']
    return 1 if bad else 0


LEVEL = 'other'
