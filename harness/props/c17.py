"""C17 — ICAO 1-3-5 significance flags.

Tie: the real `icao.significant_cloud` against the Lean model `significantCloud` and the Lean spec
predicate `Spec.c17`, exhaustively over all okta sequences 0..8 up to length 5 (quick) / 7
(thorough), plus random longer sequences with out-of-range values and numpy integer types.
"""
import itertools
from multiprocessing import Pool

from .. import common

_amp = None


def _impl(seq, debug=False):
    global _amp
    if _amp is None:
        _amp = common.import_ampycloud()
    from ampycloud import icao
    try:
        with common.debug_logging(debug):
            out = icao.significant_cloud(list(seq))
        res = ''.join('T' if bool(b) else 'F' for b in out)
        odd = [type(b).__name__ for b in out if not isinstance(b, bool)]
        # the returned list is the caller's: whatever the caller does with it afterwards (here: every flag inverted in
        # place, one appended) must not show in a later call with an equal argument
        if isinstance(out, list):
            out[:] = [not bool(b) for b in out] + [True]
            again = icao.significant_cloud(list(seq))
            res2 = ''.join('T' if bool(b) else 'F' for b in again)
            if res2 != res:
                return f'STATE:{res}->{res2}', odd
        return res, odd
    except Exception as e:  # any exception on a list of ints is a property failure (total function)
        return f'EXC:{type(e).__name__}', []


def _chunk(args):
    length, first = args
    res = []
    for tail in itertools.product(range(9), repeat=length - 1):
        seq = (first,) + tail
        res.append((seq, _impl(seq)[0]))
    return res


def _compare(chk, cases):
    """cases: list of (seq as list of int, flags string from the implementation)."""
    req = []
    for seq, fl in cases:
        s = ' '.join(str(int(o)) for o in seq)
        req.append(f'SIG {s}')
        req.append(f'SPEC17 {s} | {fl}')
    ans = chk.driver.ask(req)
    for i, (seq, fl) in enumerate(cases):
        model, spec = ans[2 * i], ans[2 * i + 1]
        nontriv = 'T' in fl and len(seq) >= 2
        chk.case(tuple(seq), nontrivial=nontriv,
                 sample={'oktas': list(map(int, seq)), 'impl': fl, 'model': model} if i % 9973 == 0 else None)
        if model != f'SIG {fl}':
            chk.mismatch('significantCloud = icao.significant_cloud', f'model {model} impl {fl}',
                         {'oktas': list(map(int, seq))})
        if spec != 'SPEC17 ok':
            chk.spec_fail('C17 1-3-5 rule (Spec.c17)', f'impl flags {fl} for oktas {list(map(int, seq))}',
                          {'oktas': list(map(int, seq))}, signature=None)


def run(chk):
    common.import_ampycloud()
    maxlen = 5 if chk.size_tier == 'quick' else 7
    chk.rule = (f'all sequences over okta 0..8 of length 0..{maxlen} (exhaustive) + random sequences up to '
                'length 40 with values in -3..12 and numpy integer element types + all sequences to length 4 with the '
                'package loggers at DEBUG; non-trivial = length >= 2 '
                'and at least one flag set; distinct by sequence')
    chk.exhaustive = True
    tasks = [(L, f) for L in range(1, maxlen + 1) for f in range(9)]
    cases = [((), _impl(())[0])]
    with Pool(16) as pool:
        for res in pool.imap_unordered(_chunk, tasks, chunksize=1):
            cases.extend(res)
            if len(cases) > 400000:
                _compare(chk, cases)
                cases = []
    _compare(chk, cases)
    chk.count('exhaustive_sequences', chk.evaluations)
    # random longer ones, other element types
    import numpy as np
    rnd = []
    n_rand = 3000 if chk.size_tier == 'quick' else 60000
    for k in range(n_rand):
        L = chk.rng.randint(1, 40)
        lo, hi = chk.rng.choice([(0, 8), (0, 8), (-3, 12), (0, 3), (4, 8)])
        seq = [chk.rng.randint(lo, hi) for _ in range(L)]
        kind = chk.rng.choice(['int', 'int', 'np.int64', 'np.int32', 'sorted'])
        if kind == 'sorted':
            seq.sort()
        arg = seq
        if kind.startswith('np.'):
            arg = [getattr(np, kind[3:])(o) for o in seq]
        fl, odd = _impl(arg)
        chk.count(f'random_{kind}')
        if odd:
            chk.count('non_bool_flag_types')
        rnd.append((seq, fl))
    _compare(chk, rnd)
    # ambient configuration: the same function with the package's loggers at DEBUG (all sequences to length 4)
    dbg = [(seq, _impl(seq, debug=True)[0]) for L in range(0, 5) for seq in itertools.product(range(9), repeat=L)]
    chk.count('sequences_under_debug_logging', len(dbg))
    _compare(chk, dbg)
    # optional arguments (whatever the signature offers beyond the okta list): calls that use them must not change what
    # later default calls return - the function is a pure function of its argument list
    import inspect
    from ampycloud import icao
    try:
        extra = [p for p in list(inspect.signature(icao.significant_cloud).parameters.values())[1:]
                 if p.default is not inspect.Parameter.empty]
    except (TypeError, ValueError):
        extra = []
    for p in extra:
        cands = []
        if isinstance(p.default, bool):
            cands = [not p.default]
        elif isinstance(p.default, int):
            cands = [p.default + d for d in (-2, -1, 1, 2, 5)] + [0]
        elif isinstance(p.default, float):
            cands = [p.default * 2, p.default / 2, 0.0]
        elif isinstance(p.default, (list, tuple)):
            cands = [type(p.default)(), type(p.default)(list(p.default) * 2)]
        elif p.default is None:
            cands = [0, 1, [], 'x']
        for v in cands:
            for seq in ([1, 3, 5, 7, 8], [8, 8, 8, 8], [0, 1, 2]):
                try:
                    icao.significant_cloud(list(seq), **{p.name: v})
                except Exception:
                    pass
        chk.count('optional_arguments_exercised_before_the_default_calls')
    # calls that fail half-way (an element that cannot be compared with a number) leave nothing behind either
    for bad in ([5, None], [8, 8, 'BKN'], [1, 3, object()], [2, [1]], [7, None, 8]):
        try:
            icao.significant_cloud(list(bad))
        except Exception:
            pass
        chk.count('failed_calls_before_the_default_calls')
        probe = [(seq, _impl(seq)[0]) for seq in ((1,), (8, 8, 8), (1, 3, 5), (0, 2, 4, 6))]
        _compare(chk, probe)
    if extra:
        after = [(seq, _impl(seq)[0]) for L in range(0, 5) for seq in itertools.product(range(9), repeat=L)]
        _compare(chk, after)
    return _search


def _search(chk):
    """Directed search after a broken correspondence: every sequence up to length 4 on the
    implementation against the spec predicate only."""
    cases = [(seq, _impl(seq)[0]) for L in range(0, 5) for seq in itertools.product(range(9), repeat=L)]
    req = [f"SPEC17 {' '.join(map(str, s))} | {fl}" for s, fl in cases]
    for (s, fl), a in zip(cases, chk.driver.ask(req)):
        if a != 'SPEC17 ok':
            return {'clause': 'C17 1-3-5 rule (Spec.c17)', 'detail': f'impl flags {fl}', 'replay': {'oktas': list(s)}}
    return None


def replay(chk, obj):
    case = obj.get('case') or (obj.get('broken_correspondence') or [{}])[0].get('case')
    seq = case['oktas']
    fl, _ = _impl(seq)
    s = ' '.join(map(str, seq))
    model, spec = chk.driver.ask([f'SIG {s}', f'SPEC17 {s} | {fl}'])
    print(f'oktas={seq}\nimplementation: {fl}\nmodel:          {model}\nspec on implementation: {spec}')
    return 0 if (spec == 'SPEC17 ok' and model == f'SIG {fl}') else 1
