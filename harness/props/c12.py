"""C12 — all documented ways of setting parameters are equivalent; reset restores all.

Tie: (a) histories on the parameter world reproduced by the Lean model (`SYS`, as for C11, with more
set_prms / reset_prms operations); (b) on the implementation: the same valid nested partial assignment
through the three routes (per-call dict, global edits, YAML via set_prms) must give equal effective
parameters and bit-identical results on a scene; a per-call run under a *poisoned* global (every leaf the
call overrides set to a value that would change the result or crash) must equal the plain run; unknown
keys warn once each and add nothing; reset_prms over subsets of the top-level names after nested in-place
edits restores exactly the packaged defaults.
"""
from __future__ import annotations

import copy
import hashlib
import itertools
import os
import random
import shutil
import tempfile
import warnings
from multiprocessing import Pool

from .. import common, metamorph, scenes, sysworld, tablecheck


def set_leaves(d, assignment):
    """Apply a nested partial assignment to a dict leaf by leaf (the 'edit the global' route)."""
    for k, v in assignment.items():
        if isinstance(v, dict) and isinstance(d.get(k), dict):
            set_leaves(d[k], v)
        else:
            d[k] = copy.deepcopy(v)


def valid_assignment(rng, defaults, scene_rows):
    """A nested partial assignment of known keys with values inside their documented meaning."""
    p = scenes.random_prms(rng, scene_rows)
    if rng.random() < 0.5:
        p.setdefault('LOWESS', {})['frac'] = rng.choice([0.2, 0.35, 0.6])
    if rng.random() < 0.4:
        p.setdefault('GROUPING_PRMS', {})['height_pad_perc'] = rng.choice([5, 10, 25])
    if rng.random() < 0.3:
        p.setdefault('SLICING_PRMS', {}).setdefault('height_scale_kwargs', {})['min_range'] = rng.choice([500, 1000, 2000])
    return p


def poison(d, named):
    """Set every leaf that `named` overrides to a value that would crash or change the result."""
    for k, v in named.items():
        if isinstance(v, dict) and isinstance(d.get(k), dict):
            poison(d[k], v)
        else:
            d[k] = 'POISON' if not isinstance(d.get(k), list) else ['POISON']


def _routes(args):
    seed, k = args
    amp = common.import_ampycloud()
    from ampycloud import dynamic
    from ampycloud.errors import AmpycloudWarning
    from ruamel.yaml import YAML
    rng = random.Random(f'{seed}:c12:{k}')
    amp.reset_prms()
    defaults = common.packaged_defaults()
    rows, _, _ = tablecheck.gen_scene(seed, k, rng.choice(['synth', 'exact', 'multi']))
    assignment = valid_assignment(rng, defaults, rows)
    findings = []
    tmp = tempfile.mkdtemp(prefix='ampyverif_c12_')
    try:
        with warnings.catch_warnings():
            warnings.simplefilter('ignore')
            # prior global contents: arbitrary edits on keys the assignment does not touch stay in all three routes
            prior = {}
            if rng.random() < 0.5:
                prior = {'MPL_STYLE': 'base', 'LAYERING_PRMS': {'gmm_kwargs': {'min_prob': 0.75}}}
            results = {}
            for route in ('percall', 'global', 'yaml'):
                amp.reset_prms()
                set_leaves(dynamic.AMPYCLOUD_PRMS, prior)
                if route == 'percall':
                    obs = scenes.run_scene(rows, copy.deepcopy(assignment))
                elif route == 'global':
                    set_leaves(dynamic.AMPYCLOUD_PRMS, assignment)
                    obs = scenes.run_scene(rows, None)
                else:
                    f = os.path.join(tmp, 'p.yml')
                    from .. import yamlspell
                    yamlspell.write(f, assignment, random.Random(f'{seed}:yaml:{k}'))   # hand-spelled, YAML 1.2
                    amp.set_prms(f)
                    obs = scenes.run_scene(rows, None)
                results[route] = (sysworld.tree(obs['eff']) if 'eff' in obs else None, metamorph.observe(obs))
            if not (results['percall'] == results['global'] == results['yaml']):
                diff = [r for r in ('global', 'yaml') if results[r] != results['percall']]
                what = 'effective parameters' if any(results[r][0] != results['percall'][0] for r in diff) else 'results'
                findings.append(('C12.routes-equivalent', f'{what} differ between per-call and {diff} for {assignment}'))
            # poisoned global: the per-call run must not see the global on the keys it overrides
            amp.reset_prms()
            full = copy.deepcopy(defaults)
            set_leaves(full, assignment)
            plain = metamorph.observe(scenes.run_scene(rows, copy.deepcopy(full)))
            poison(dynamic.AMPYCLOUD_PRMS, full)
            poisoned = metamorph.observe(scenes.run_scene(rows, copy.deepcopy(full)))
            amp.reset_prms()
            if plain != poisoned:
                findings.append(('C12.per-call-run-blind-to-overridden-global-keys',
                                 f"differs in {[key for key in plain if plain.get(key) != poisoned.get(key)]}"))
        # unknown keys: one AmpycloudWarning each, nothing added
        amp.reset_prms()
        unknown = {'NOT_A_KEY': 1, 'LOWESS': {'frac': 0.3, 'not_nested': 2}, 'GROUPING_PRMS': {'nope': {'x': 1}}}
        with warnings.catch_warnings(record=True) as wl:
            warnings.simplefilter('always')
            from ampycloud.data import CeiloChunk
            c = CeiloChunk(scenes.make_frame(rows), prms=unknown)
        nw = sum(1 for w in wl if w.category is AmpycloudWarning and 'Key unknown' in str(w.message))
        keys_ok = sysworld.tree({kk: 0 for kk in c.prms}) == sysworld.tree({kk: 0 for kk in defaults}) and \
            set(c.prms['LOWESS']) == set(defaults['LOWESS']) and set(c.prms['GROUPING_PRMS']) == set(defaults['GROUPING_PRMS'])
        if nw != 3 or not keys_ok or c.prms['LOWESS']['frac'] != 0.3:
            findings.append(('C12.unknown-keys-warn-and-add-nothing', f'{nw} warnings, keys_ok={keys_ok}'))
    finally:
        shutil.rmtree(tmp, ignore_errors=True)
        amp.reset_prms()
    return {'k': k, 'findings': findings, 'assignment': assignment,
            'digest': hashlib.sha1(repr((rows[:5], sorted(assignment.items(), key=str))).encode()).hexdigest()[:16]}


def _resets(args):
    seed, chunk_id, subsets = args
    amp = common.import_ampycloud()
    from ampycloud import dynamic
    rng = random.Random(f'{seed}:c12reset:{chunk_id}')
    defaults = common.packaged_defaults()
    findings = []
    for names in subsets:
        amp.reset_prms()
        # nested in-place edits everywhere
        for path, old in sysworld.leaf_paths(defaults):
            if rng.random() < 0.7:
                d = dynamic.AMPYCLOUD_PRMS
                for p in path[:-1]:
                    d = d[p]
                if isinstance(d[path[-1]], list) and rng.random() < 0.5:
                    d[path[-1]].append(12345)               # in-place mutation of a list leaf
                else:
                    d[path[-1]] = sysworld.new_value(rng, old)
        # nested in-place edits that add or remove keys (valid pass-through keyword arguments, switched modes)
        if rng.random() < 0.6:
            dynamic.AMPYCLOUD_PRMS['LOWESS']['delta'] = 0.5
        if rng.random() < 0.5:
            dynamic.AMPYCLOUD_PRMS['SLICING_PRMS']['height_scale_kwargs'].pop('min_range', None)
            dynamic.AMPYCLOUD_PRMS['SLICING_PRMS']['height_scale_kwargs']['scale'] = 1000
        if rng.random() < 0.3:
            dynamic.AMPYCLOUD_PRMS['LAYERING_PRMS']['gmm_kwargs']['extra_kw'] = 1
        edited = copy.deepcopy(dynamic.AMPYCLOUD_PRMS)
        if names is None:
            arg = None                                    # reset everything
        else:
            arg = list(names)                             # a (possibly EMPTY) subset of names: exactly those, nothing else
            if len(arg) == 1 and rng.random() < 0.5:
                arg = arg[0]
            elif len(arg) == 0 and rng.random() < 0.5:
                arg = ()
        if names is None and rng.random() < 0.5:
            amp.reset_prms()
        else:
            amp.reset_prms(arg)
        now = dynamic.AMPYCLOUD_PRMS
        target = list(defaults) if names is None else names
        for key in defaults:
            want = defaults[key] if key in target else edited[key]
            if now[key] != want:
                findings.append(('C12.reset-restores-exactly-the-named-defaults', f'names={None if names is None else list(names)} key={key}'))
                break
        if set(now) != set(defaults):
            findings.append(('C12.reset-restores-exactly-the-named-defaults', f'names={None if names is None else list(names)}: key set changed'))
    amp.reset_prms()
    return {'n': len(subsets), 'findings': findings}


def _hist(args):
    seed, k = args
    common.import_ampycloud()
    from ampycloud import dynamic
    rng = random.Random(f'{seed}:c12hist:{k}')
    defaults = common.packaged_defaults()
    ops = []
    n_callers = 0
    top = list(defaults)
    for _ in range(rng.randint(4, 12)):
        r = rng.random()
        if r < 0.3:
            ops.append(('setPrms', sysworld.partial_dict(rng, defaults)))
        elif r < 0.5:
            names = rng.sample(top, rng.randint(1, 4))
            if rng.random() < 0.25:
                names.insert(rng.randrange(len(names) + 1), 'NOT_A_PRM')
            ops.append(('reset', names))
        elif r < 0.55:
            ops.append(('reset', None))
        elif r < 0.7:
            path, old = rng.choice(sysworld.leaf_paths(defaults))
            ops.append(('setGlobal', list(path), sysworld.new_value(rng, old)))
        elif r < 0.85:
            ops.append(('newCaller', sysworld.partial_dict(rng, defaults))); n_callers += 1
        else:
            ops.append(('construct', rng.choice([None] + list(range(n_callers)))))
    req, _ = sysworld.run_history(ops)
    return {'k': k, 'req': req, 'ops': [o[0] for o in ops], 'digest': hashlib.sha1(req.encode()).hexdigest()[:16]}


def run(chk):
    quick = chk.tier == 'quick'
    n_routes = 96 if quick else 1200
    n_hist = 300 if quick else 3000
    common.import_ampycloud()
    from ampycloud import dynamic
    top = list(common.packaged_defaults())
    subsets = [None, None, (), (), ()] + [(a,) for a in top] + list(itertools.combinations(top, 2))
    if quick:
        subsets += [tuple(chk.rng.sample(top, chk.rng.randint(3, len(top)))) for _ in range(200)]
    else:
        subsets = [tuple(t for i, t in enumerate(top) if m >> i & 1) for m in range(2 ** len(top))]
    chk.rule = (f'{n_routes} valid nested assignments x 3 routes (+ poisoned global, + unknown keys) on generated scenes; '
                f'{len(subsets)} subsets of the {len(top)} top-level names for reset_prms after nested in-place edits '
                f"({'all singletons and pairs + 200 sampled' if quick else 'all subsets'}); {n_hist} set_prms/reset/construct histories "
                'reproduced by the Lean model; non-trivial = every case (each has an assignment or an edit); distinct by digest')
    chunks = [subsets[i::16] for i in range(16)]
    with Pool(16) as pool:
        routes = pool.map(_routes, [(chk.seed, k) for k in range(n_routes)], chunksize=1)
        resets = pool.map(_resets, [(chk.seed, i, c) for i, c in enumerate(chunks)])
        hists = pool.map(_hist, [(chk.seed, k) for k in range(n_hist)], chunksize=2)
    for r in routes:
        replay = {'gen': {'seed': chk.seed, 'k': r['k'], 'part': 'routes'}}
        chk.count('routes_cases')
        chk.case(('routes', r['digest']), sample={'part': 'routes', 'k': r['k'], 'assignment': r['assignment']} if r['k'] < 3 else None)
        for clause, detail in r['findings']:
            chk.spec_fail(clause, detail, replay)
    for i, r in enumerate(resets):
        chk.count('reset_subsets', r['n'])
        for j in range(r['n']):
            chk.case(('reset', i, j))
        for clause, detail in r['findings'][:3]:
            chk.spec_fail(clause, detail, {'gen': {'seed': chk.seed, 'part': 'reset', 'chunk': i}, 'detail': detail})
    answers = chk.driver.ask([h['req'] for h in hists])
    for h, ans in zip(hists, answers):
        replay = {'gen': {'seed': chk.seed, 'k': h['k'], 'part': 'hist'}}
        chk.count('histories')
        chk.case(('hist', h['digest']), sample={'part': 'hist', 'ops': h['ops']} if h['k'] < 3 else None)
        if ans.startswith('SYS bad-request'):
            chk.mismatch('what the implementation produced cannot be expressed as a model request (driver: bad-request)', ans[:200], replay)
            continue
        if ans != 'SYS ok':
            chk.mismatch('parameter-world model = implementation (set_prms / reset_prms / construct)', ans[:400], replay)
    return None


def replay(chk, obj):
    case = obj.get('case') or (obj.get('broken_correspondence') or [{}])[0].get('case')
    g = case['gen']
    if g.get('part') == 'routes':
        r = _routes((g['seed'], g['k']))
        print(r['assignment'], r['findings'])
        return 1 if r['findings'] else 0
    if g.get('part') == 'hist':
        h = _hist((g['seed'], g['k']))
        ans = chk.driver.ask([h['req']])[0]
        print(h['ops'], ans[:600])
        return 0 if ans == 'SYS ok' else 1
    print('reset part: re-run the quick check (subsets are enumerated deterministically):', case.get('detail'))
    return 1
