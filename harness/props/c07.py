"""C07 — hits above MSA + buffer never influence the result; those below are kept intact.

Two ties (DESIGN.md 6 C07): (a) the end-to-end cascade check of harness/pipecheck.py (cropped frame and high-cloud flag
against the model, spec predicates C07.*); (b) metamorphic runs of the real code: every hit above the limit moved to
another height above the limit (everything must be identical, flag and messages included), and the hits above the limit
replaced by what the crop makes of them (first / VV hits -> non-detections, higher types deleted: identical data, ids and
tables; messages identical up to NCD <-> NSC, which legitimately follows the number of cropped hits).
"""
import hashlib
import random
import warnings
from multiprocessing import Pool

from .. import metamorph, pipecheck, scenes

PROP = 'C07'


def _variants(rows, lim, rng):
    moved, replaced = [], []
    for c, dt, h, t in rows:
        if h == h and h > lim:
            moved.append((c, dt, float(h + rng.choice([1.0, 250.0, 4000.0, 0.5])), t))
            if t <= 1:
                replaced.append((c, dt, float('nan'), 0))
        else:
            moved.append((c, dt, h, t)); replaced.append((c, dt, h, t))
    return moved, replaced


def _meta(args):
    seed, k = args
    rng = random.Random(f'{seed}:c07meta:{k}')
    fam = rng.choice(['crop', 'crop', 'owned', 'split', 'synth', 'drift'])
    rows, prms, _ = pipecheck.gen_scene(seed, 50000 + k, fam)
    prms = dict(prms)
    hs = sorted(h for _, _, h, _ in rows if h == h)
    if prms.get('MSA') is None:
        if not hs:
            return None
        prms['MSA'] = float(rng.choice([hs[len(hs) // 2], hs[-1] - 1, hs[0]]))
        prms.setdefault('MSA_HIT_BUFFER', rng.choice([0, 100, 1500]))
    lim = prms['MSA'] + prms.get('MSA_HIT_BUFFER', 1500)
    if not any(h > lim for h in hs):
        return None
    moved, replaced = _variants(rows, lim, rng)
    res = {'k': k, 'family': fam, 'findings': [], 'n_above': sum(1 for h in hs if h > lim),
           'digest': hashlib.sha1(repr((rows, sorted(prms.items(), key=str))).encode()).hexdigest()[:16]}
    with warnings.catch_warnings():
        warnings.simplefilter('ignore')
        base = metamorph.observe(scenes.run_scene(rows, prms))
        a = metamorph.observe(scenes.run_scene(moved, prms))
        b = metamorph.observe(scenes.run_scene(replaced, prms))
    if 'exc' in base:
        res['skip'] = base['exc']
        return res
    if a != base:
        res['findings'].append(('C07.heights-above-the-limit-are-irrelevant',
                                f"moving the {res['n_above']} hits above {lim} ft changes {[x for x in base if base.get(x) != a.get(x)] or list(a)}"))
    nn = lambda m: ['N??' if x in ('NCD', 'NSC') else x for x in m]
    diff = [x for x in ('data', 'sids', 'gids', 'lids', 'slices', 'groups', 'layers') if base.get(x) != b.get(x)]
    if b.get('exc') == 'AmpycloudError at init':
        # the replaced table is not itself an accepted input (e.g. a non-detection next to a remaining higher-type row)
        res['replaced_not_accepted'] = True
    elif 'exc' in b or diff or nn(base.get('msgs', [])) != nn(b.get('msgs', [])):
        res['findings'].append(('C07.same-as-with-non-detections',
                                f"replacing the hits above {lim} ft by what the crop makes of them changes {diff or b.get('exc') or 'msgs'}"))
    return res


def run(chk):
    n = 640 if chk.tier == 'quick' else 6000
    chk.rule = ('scenes from families synth / exact / degenerate / multi / chain (repeated merges, exact min-sep ties) / '
                'split (mixture engaged, 2-3 modes, any row order, look-back) / crop (hits at and around MSA+buffer) / bundle '
                '(time axis matters) / manyslices (>100 slices); the real cascade is run under recording and re-run by the '
                'Lean model with the recorded third-party answers; plus metamorphic triples (scene, hits above the limit moved, '
                'hits above the limit replaced by non-detections / deleted) on the real code; non-trivial = some level reports '
                'something other than NCD; distinct by scene digest')
    pipecheck.run_pipeline(chk, PROP, n)
    m = 160 if chk.tier == 'quick' else 2000
    with Pool(16) as pool:
        results = pool.map(_meta, [(chk.seed, k) for k in range(m)], chunksize=2)
    for r in results:
        if r is None:
            chk.count('metamorphic_scene_without_hits_above_the_limit')
            continue
        if 'skip' in r:
            chk.count('metamorphic_base_raised')
            continue
        chk.count('metamorphic_triples')
        chk.case(('meta', r['digest']), nontrivial=True)
        for clause, detail in r['findings']:
            chk.spec_fail(clause, detail, {'gen': {'seed': chk.seed, 'k': r['k'], 'part': 'meta'}})
    return None


def replay(chk, obj):
    case = obj.get('case') or (obj.get('broken_correspondence') or [{}])[0].get('case')
    if case and case.get('gen', {}).get('part') == 'meta':
        r = _meta((case['gen']['seed'], case['gen']['k']))
        print(r)
        return 1 if (r and r.get('findings')) else 0
    return pipecheck.replay_scene(chk, obj, PROP)
