"""C08 — valid input never crashes the chain; failures are AmpycloudError only (partial).

Proof part: the model is total; `C08_*` theorems show that no `AmpycloudError`/assert branch of the
model is reachable on screened input with in-domain parameters and that every third-party call meets
its documented pre-condition.  Search part (labelled as such): all scene families with parameter sets
over the documented domain; any exception on valid input is a violation with the scene as replay.
"""
from .. import pipecheck

PROP = 'C08'


def run(chk):
    n = 900 if chk.tier == 'quick' else 12000
    chk.rule = ('all scene families of pipecheck with random in-domain parameter sets; the real cascade + metar_msg for '
                'every level must return; any exception is a violation; non-trivial = some level reports something '
                'other than NCD; distinct by scene digest')
    pipecheck.run_pipeline(chk, PROP, n, crash_is_violation=True)
    # the witness of the recorded finding F7 (known_findings.json) is run on every run: while the defect is there it is
    # reported by a KNOWN-FINDING line; anything else it does is judged like any other scene
    from .. import scenes
    rows = [('A', -15.0 * i, 9000.0, 2) for i in range(5)]
    obs = scenes.run_scene(rows, {'MSA': 1000, 'MSA_HIT_BUFFER': 0})
    chk.case(('F7-witness',), nontrivial=True)
    if obs['exc']:
        clause = 'C08.valid-input-refused' if obs['exc'] == 'AmpycloudError' else 'C08.no-crash-on-valid-input'
        chk.spec_fail(clause, f"{obs['exc']} at stage {obs['stage']}: {obs.get('exc_msg')}",
                      {'witness': 'F7', 'rows': rows, 'prms': {'MSA': 1000, 'MSA_HIT_BUFFER': 0}},
                      signature='crop-empties-the-table')
    chk.explanation = ('Totality has a proved part (model error branches unreachable, kernel pre-conditions met: theorems '
                       'C08_*) and a searched part (third-party code raising inside its documented domain), which no '
                       'executable model of ampycloud can exhibit; the search part is exploration, not proof.')
    return None


def replay(chk, obj):
    return pipecheck.replay_scene(chk, obj, PROP)
