"""C14 — any order of stage calls raises AmpycloudError or gives the canonical result.

Tie: on each scene the reachable states of a real `CeiloChunk` under the ten operations are explored as a
graph over *distinct state digests* (data with id columns, three tables, flag) — the behaviour of the
next call depends on nothing else, so the closed graph covers every history of every length.  The graph
(nodes with full state, edges with what the caller saw) goes to the Lean driver, which walks it with the
model's `step` from the fresh chunk and compares every edge outcome and every node.  On the
implementation itself: every outcome is `done`, a message or AmpycloudError; a refused call leaves the
state digest unchanged; repeating an accepted call is idempotent; at most four states are reachable and
every message equals that of the canonical slices-groups-layers run.  A sample of histories is also run
directly (no merging) as a cross-check of the reduction.
"""
from __future__ import annotations

import copy
import hashlib
import random
import warnings
from multiprocessing import Pool

import numpy as np

from .. import common, pipecheck, record, scenes

OPS = ['fs', 'fg', 'fl', 'mS', 'mG', 'mL', 'qS', 'qG', 'qL']   # + metarize/metar_msg cover the ten API calls
WHICH = {'S': 'slices', 'G': 'groups', 'L': 'layers'}


def apply(chunk, op):
    from ampycloud.errors import AmpycloudError
    try:
        if op == 'fs':
            chunk.find_slices(); return 'done'
        if op == 'fg':
            chunk.find_groups(); return 'done'
        if op == 'fl':
            chunk.find_layers(); return 'done'
        if op[0] == 'm':
            chunk.metarize(WHICH[op[1]]); return 'done'
        return 'msg:' + chunk.metar_msg(WHICH[op[1]]).replace(' ', '_')
    except AmpycloudError:
        return 'AmpycloudError'
    except Exception as e:
        return 'crash:' + type(e).__name__


def state_tokens(chunk):
    out = {}
    for key, col in (('SIDS', 'slice_id'), ('GIDS', 'group_id'), ('LIDS', 'layer_id')):
        if col in chunk.data.columns:
            vals = list(chunk.data[col])
            out[key] = ' '.join('none' if v is None or (isinstance(v, float) and np.isnan(v)) else str(int(v)) for v in vals)
        else:
            out[key] = 'none'
    for key, tbl in (('TSLICES', chunk.slices), ('TGROUPS', chunk.groups), ('TLAYERS', chunk.layers)):
        out[key] = 'none' if tbl is None else ' ; '.join(scenes.table_rows(tbl))
    return out


def digest(chunk):
    st = state_tokens(chunk)
    base = repr([(k, st[k]) for k in sorted(st)]) + repr(scenes.data_rows(chunk.data)) + str(chunk.clouds_above_msa_buffer)
    return hashlib.sha1(base.encode()).hexdigest()


def explore(rows, prms, max_nodes=12):
    """Graph of reachable states. Returns nodes (state tokens), edges, the trace, notes."""
    common.import_ampycloud()
    from ampycloud.data import CeiloChunk
    with record.recording() as tr, warnings.catch_warnings():
        warnings.simplefilter('ignore')
        c0 = CeiloChunk(scenes.make_frame(rows), prms=copy.deepcopy(prms))
        eff = copy.deepcopy(c0.prms)
        data0 = scenes.data_rows(c0.data)
        flag = bool(c0.clouds_above_msa_buffer)
        chunks = [c0]
        index = {digest(c0): 0}
        edges = []
        todo = [0]
        alts = {}          # other chunk objects that reached an already known state by another path
        while todo:
            n = todo.pop(0)
            for op in OPS:
                c = copy.deepcopy(chunks[n])
                out = apply(c, op)
                d = digest(c)
                if d not in index:
                    if len(chunks) >= max_nodes:
                        return None, None, None, f'more than {max_nodes} states reachable'
                    index[d] = len(chunks)
                    chunks.append(c)
                    todo.append(index[d])
                elif index[d] != n or op in ('fs', 'fg', 'fl'):
                    if len(alts.setdefault(index[d], [])) < 4:
                        alts[index[d]].append((c, n, op))
                edges.append((n, op, index[d], out))
        # the reduction rests on "equal observable state => equal behaviour": check it one step deep on every object that
        # reached a known state by another path (a hidden attribute that steers the next call shows up here)
        hidden = None
        for node, objs in alts.items():
            for (c_alt, src, via) in objs:
                for op in OPS:
                    cc = copy.deepcopy(c_alt)
                    out = apply(cc, op)
                    ref = [e for e in edges if e[0] == node and e[1] == op][0]
                    if out != ref[3] or index.get(digest(cc)) != ref[2]:
                        hidden = (f'state {node} reached through node{src}.{via} answers {op} with {out} -> '
                                  f'{index.get(digest(cc), "a new state")}, the first object in that state with {ref[3]} -> {ref[2]}')
                        break
                if hidden:
                    break
            if hidden:
                break
    obs = {'rows': rows, 'data': data0, 'flag': flag, 'eff': eff, 'trace': tr, 'hidden': hidden}
    return [state_tokens(c) for c in chunks], edges, obs, None


def canonical(rows, prms):
    """The canonical slices-groups-layers run, with a snapshot of the state after each stage."""
    common.import_ampycloud()
    from ampycloud.data import CeiloChunk
    with warnings.catch_warnings():
        warnings.simplefilter('ignore')
        c = CeiloChunk(scenes.make_frame(rows), prms=copy.deepcopy(prms))
        snaps = [state_tokens(c)]
        c.find_slices(); snaps.append(state_tokens(c))
        c.find_groups(); snaps.append(state_tokens(c))
        c.find_layers(); snaps.append(state_tokens(c))
    return c, snaps


def _work(args):
    seed, k = args
    rng = random.Random(f'{seed}:c14:{k}')
    fam = rng.choice(['split', 'split', 'chain', 'chain', 'synth', 'synth', 'bundle', 'degenerate', 'multi', 'crop'])
    rows, prms, meta = pipecheck.gen_scene(seed, k, fam)
    res = {'k': k, 'family': fam, 'findings': [], 'nrows': len(rows), 'prms': prms}
    try:
        canon, snaps = canonical(rows, prms)
    except Exception as e:
        res['skip'] = f'canonical run raised {type(e).__name__}'
        return res
    nodes, edges, obs, note = explore(rows, prms)
    if note:
        res['findings'].append(('C14.at-most-four-canonical-states', note))
        return res
    res['n_nodes'], res['n_edges'] = len(nodes), len(edges)
    if obs.get('hidden'):
        res['findings'].append(('C14.behaviour-is-a-function-of-the-observable-state', obs['hidden']))
    canon_msgs = {w: 'msg:' + canon.metar_msg(WHICH[w]).replace(' ', '_') for w in 'SGL'}
    # properties of the implementation's graph itself
    if len(nodes) > 4:
        res['findings'].append(('C14.at-most-four-canonical-states', f'{len(nodes)} distinct states'))
    for (src, op, dst, out) in edges:
        if out.startswith('crash:'):
            res['findings'].append(('C14.only-AmpycloudError', f'node{src}.{op} -> {out}'))
        if out == 'AmpycloudError' and dst != src:
            res['findings'].append(('C14.refused-call-leaves-state-intact', f'node{src}.{op} refused but state changed'))
        if out.startswith('msg:') and out != canon_msgs[op[1]]:
            res['findings'].append(('C14.message-equals-canonical', f'node{src}.{op}: {out} vs canonical {canon_msgs[op[1]]}'))
        if out.startswith('msg:') and dst != src:
            res['findings'].append(('C14.query-changes-state', f'node{src}.{op}'))
        if out == 'done':
            again = [e for e in edges if e[0] == dst and e[1] == op]
            if again and (again[0][2] != dst or again[0][3] != 'done'):
                res['findings'].append(('C14.repeating-a-permitted-stage-is-idempotent', f'node{src}.{op}.{op}'))
    # every reachable state is one of the four states the canonical run goes through
    for i, st in enumerate(nodes):
        if st not in snaps:
            diff = [key for key in st if all(st[key] != sn[key] for sn in snaps)]
            res['findings'].append(('C14.state-is-a-canonical-stage-state', f'node{i}: no canonical stage has this {diff or "combination"}'))
    # request for the model
    prm = scenes.prm_section_full(obs['eff'], obs['flag'])
    if prm is not None:
        secs = ['HIST', prm, 'ROWS ' + ' ; '.join(f'{scenes.tok(c)} {common.frac(dt)} {common.frac(h)} {t}' for c, dt, h, t in rows)]
        secs += scenes.kernel_sections(obs)
        secs += scenes.extra_kernel_sections(obs['trace'])
        secs.append(f'NNODES {len(nodes)}')
        for i, st in enumerate(nodes):
            for key in ('SIDS', 'GIDS', 'LIDS', 'TSLICES', 'TGROUPS', 'TLAYERS'):
                secs.append(f'{key}{i} {st[key]}')
        secs.append('EDGES ' + ' ; '.join(f'{s} {op} {d} {out}' for s, op, d, out in edges))
        res['req'] = ' | '.join(secs)
    # cross-check of the merging reduction: run a few histories directly
    n_direct = 6
    for j in range(n_direct):
        hist = [rng.choice(OPS) for _ in range(rng.randint(1, 7))]
        from ampycloud.data import CeiloChunk
        with warnings.catch_warnings():
            warnings.simplefilter('ignore')
            c = CeiloChunk(scenes.make_frame(rows), prms=copy.deepcopy(prms))
            node, outs_pred, outs_real = 0, [], []
            for op in hist:
                e = [x for x in edges if x[0] == node and x[1] == op][0]
                outs_pred.append(e[3]); node = e[2]
                outs_real.append(apply(c, op))
        if outs_pred != outs_real or state_tokens(c) != nodes[node]:
            res['findings'].append(('C14.direct-history-vs-merged-graph', f'history {hist}: {outs_real} vs {outs_pred}'))
    res['direct_histories'] = n_direct
    res['digest'] = hashlib.sha1(repr((rows, sorted(prms.items(), key=str))).encode()).hexdigest()[:16]
    res['merged'] = canon.n_groups is not None and canon.n_slices is not None and canon.n_groups < canon.n_slices
    res['split'] = bool((canon.groups['ncomp'] > 1).any()) if len(canon.groups) else False
    res['nonisolated'] = bool((~canon.slices['isolated'].astype(bool)).any()) if len(canon.slices) else False
    return res


def run(chk):
    n = 128 if chk.tier == 'quick' else 1500
    chk.rule = ('scenes from families split/chain/synth/bundle/degenerate/multi/crop; per scene the closed graph of states '
                'reachable by the 9 call forms (find_slices/groups/layers, metarize x3, metar_msg x3) from a fresh chunk, states '
                'merged by digest: covers every call sequence of every length; plus 6 directly executed random histories per '
                'scene; non-trivial = the scene has merged groups, a split group or non-isolated slices; distinct by scene digest')
    chk.exhaustive = True
    with Pool(16) as pool:
        results = pool.map(_work, [(chk.seed, k) for k in range(n)], chunksize=1)
    live = [r for r in results if r.get('req')]
    answers = dict(zip([r['k'] for r in live], chk.driver.ask([r['req'] for r in live])))
    states = transitions = direct = 0
    for r in results:
        replay = {'gen': {'seed': chk.seed, 'k': r['k']}}
        if 'skip' in r:
            chk.count('skipped_' + r['skip'])
            continue
        chk.count('family_' + r['family'])
        for key in ('merged', 'split', 'nonisolated'):
            if r.get(key):
                chk.count('scene_with_' + key)
        states += r.get('n_nodes', 0); transitions += r.get('n_edges', 0); direct += r.get('direct_histories', 0)
        chk.count(f"states_per_scene={r.get('n_nodes')}")
        chk.case(r.get('digest', r['k']), nontrivial=bool(r.get('merged') or r.get('split') or r.get('nonisolated')),
                 sample={'k': r['k'], 'family': r['family'], 'rows': r['nrows'], 'states': r.get('n_nodes'),
                         'edges': r.get('n_edges')} if r['k'] < 5 else None)
        for clause, detail in r['findings']:
            chk.spec_fail(clause, detail, replay)
        if r.get('req'):
            ans = answers[r['k']]
            if ans.startswith('HIST bad-request'):
                chk.mismatch('what the implementation produced cannot be expressed as a model request (driver: bad-request)', ans[:200], replay)
            elif ans != 'HIST ok':
                for f in ans[5:].split('; '):
                    chk.mismatch('stage machine model = implementation', f[:300], replay)
    chk.extra.update({'states': states, 'transitions': transitions, 'traces_validated_against_impl': direct})
    return None


def replay(chk, obj):
    case = obj.get('case') or (obj.get('broken_correspondence') or [{}])[0].get('case')
    g = case['gen']
    r = _work((g['seed'], g['k']))
    print({k: v for k, v in r.items() if k != 'req'})
    ans = chk.driver.ask([r['req']])[0] if r.get('req') else 'n/a'
    print('model walk:', ans[:1200])
    return 1 if (r['findings'] or (ans not in ('HIST ok', 'n/a'))) else 0
