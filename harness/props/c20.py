"""C20 — diagnostic plotting is total and free of side effects (level: other, partial).

Proof part: the indexing and restore discipline of the plot access model (C20_* theorems: marker / colour
indices in range for any number of sets, `ncomp` within the keys of the symbol table, n_* = table length,
style context restored whatever the body does, no write to the chunk).  Search part on the real code (Agg
backend, output under a temporary directory outside /repo and /verif, removed afterwards): chunks from all
scene families x upto x show_ceilos x reference-METAR arguments x formats, several plots in sequence within
one process; checked: no exception, chunk digest unchanged, rcParams equal key by key, no figure left open,
directory listing = requested files.  matplotlib itself (layout, backends, file writing) cannot be modelled.
"""
from __future__ import annotations

import hashlib
import json

import numpy as np
import os
import random
import shutil
import tempfile
import warnings
from multiprocessing import Pool

from .. import common, metamorph, pipecheck, scenes


def gen_chunk_scene(seed, k):
    rng = random.Random(f'{seed}:c20:{k}')
    fam = rng.choice(['synth', 'synth', 'multi', 'degenerate', 'degenerate', 'split', 'chain', 'crop', 'manyslices9', 'manyceilos'])
    if fam == 'manyceilos':
        # more ceilometers than colours in the cycle (10)
        nc = rng.choice([11, 12, 14, 21])
        rows = [(f'c{c:02d}', -15.0 * i - 0.5 * c, 1200.0 + 3.0 * c + (i % 3), 1) for c in range(nc) for i in range(rng.choice([4, 8]))]
        return rows, {}, fam
    if fam == 'manyslices9':
        # more sets than marker styles (8) and colours
        rows = []
        t = -3000.0
        for s in range(rng.choice([9, 12, 17])):
            for j in range(6):
                rows.append(('0', t, 500.0 + 900.0 * s + (j % 2) * 10, 1)); t += 10
        prms = {'MAX_HITS_OKTA0': 0, 'SLICING_PRMS': {'distance_threshold': 0.01}}
        return rows, prms, fam
    if fam == 'degenerate' and rng.random() < 0.4:
        kind = rng.choice(['nohits', 'single', 'vv', 'zero_okta'])
        if kind == 'nohits':
            rows = [('0', -15.0 * i, float('nan'), 0) for i in range(12)]
        elif kind == 'single':
            rows = [('0', -15.0 * i, float('nan'), 0) for i in range(1, 12)] + [('0', 0.0, 1200.0, 1)]
        elif kind == 'vv':
            rows = [('0', -15.0 * i, 300.0 + i, -1) for i in range(20)]
        else:
            rows = [('0', -15.0 * i, 2000.0 if i < 2 else float('nan'), 1 if i < 2 else 0) for i in range(30)]
        return rows, {}, 'degenerate:' + kind
    rows, prms, _ = pipecheck.gen_scene(seed, k, fam)
    return rows, prms, fam


def _work(args):
    seed, k = args
    amp = common.import_ampycloud()
    import matplotlib
    matplotlib.use('Agg')
    import matplotlib.pyplot as plt
    from ampycloud.plots import diagnostic
    rng = random.Random(f'{seed}:c20plots:{k}')
    rows, prms, fam = gen_chunk_scene(seed, k)
    findings = []
    tmp = tempfile.mkdtemp(prefix='ampyverif_plot_')
    n_plots = 0
    n_excursions = 0
    try:
        with warnings.catch_warnings():
            warnings.simplefilter('ignore')
            # the chunk's descriptive attributes (place, reference time) only decorate the plot: any value is allowed
            ck = {}
            if rng.random() < 0.6:
                ck['geoloc'] = rng.choice(['Mock data', 'LSZH', 'Genève-Cointrin (é) 100%', '', 'a_b^c $x$'])
            if rng.random() < 0.6:
                ck['ref_dt'] = rng.choice(['2024-06-01 12:00:00', '', 'now', '291650Z'])
            obs = scenes.run_scene(rows, prms, chunk_kwargs=ck)
            if obs['exc']:
                return {'k': k, 'family': fam, 'findings': [], 'skip': 'run raised', 'n_plots': 0}
            chunk = obs['chunk']
            before = json.dumps(metamorph.observe(obs), sort_keys=True, default=str)
            prm_before = json.dumps(chunk.prms, sort_keys=True, default=str)
            rc_before = dict(matplotlib.rcParams)
            from ampycloud import dynamic
            for j in range(rng.choice([2, 3, 4])):
                if rng.random() < 0.35:
                    # style excursion: one un-rendered call under another plotting style (needs no LaTeX because nothing is
                    # drawn), then back to the base style - the plots that follow must behave as if it never happened.
                    # Whatever the excursion itself does (LaTeX is not installed here) is not judged.
                    style = rng.choice(['latex', 'metsymb'])
                    prev = dynamic.AMPYCLOUD_PRMS['MPL_STYLE']
                    dynamic.AMPYCLOUD_PRMS['MPL_STYLE'] = style
                    try:
                        diagnostic(chunk, upto=rng.choice(['raw_data', 'layers']), show=False, save_stem=None)
                    except Exception:
                        pass
                    finally:
                        dynamic.AMPYCLOUD_PRMS['MPL_STYLE'] = prev
                        plt.close('all')
                        matplotlib.rcParams.update(rc_before)
                    n_excursions += 1
                upto = rng.choice(['raw_data', 'slices', 'groups', 'layers', 'layers'])
                show_ceilos = rng.random() < 0.5
                ref = rng.choice([None, 'FEW010 BKN035', 'NCD', ''])
                origin = rng.choice([None, 'Mock data', 'LSZH 291650Z'])
                fmts = rng.choice([None, 'png', ['png'], ['png', 'pdf'], [], 'svg', ['jpg'], ['tif', 'png'], 'webp', ['eps'], ['ps', 'jpeg'],
                                   ['raw'], 'tiff', ['gif'], ['rgba', 'svg']])
                stem = os.path.join(tmp, rng.choice([f'p{k}_{j}', f'LSGG_2024.06.{k % 28 + 1:02d}_{j}', f'v2.0.{j}_diag{k}'])) if rng.random() < 0.8 else None
                listing_before = set(os.listdir(tmp))
                try:
                    diagnostic(chunk, upto=upto, show_ceilos=show_ceilos, ref_metar=ref, ref_metar_origin=origin,
                               show=False, save_stem=stem, save_fmts=fmts)
                except Exception as e:
                    findings.append(('C20.plotting-raises-nothing',
                                     f'upto={upto} show_ceilos={show_ceilos} ref={ref!r} fmts={fmts}: {type(e).__name__}: {str(e)[:120]}'))
                    plt.close('all')
                n_plots += 1
                if plt.get_fignums():
                    findings.append(('C20.no-figure-left-open', f'upto={upto}: {len(plt.get_fignums())} open'))
                    plt.close('all')
                want = set()
                if stem is not None:
                    f_list = ['pdf'] if fmts is None else ([fmts] if isinstance(fmts, str) else fmts)
                    want = {os.path.basename(stem) + '.' + f for f in f_list}
                new = set(os.listdir(tmp)) - listing_before
                if new != want and not any(c == 'C20.plotting-raises-nothing' for c, _ in findings):
                    findings.append(('C20.exactly-the-requested-files', f'wrote {sorted(new)} for stem/fmts {fmts}'))
                rc_after = dict(matplotlib.rcParams)
                if rc_after != rc_before:
                    diff = [key for key in rc_before if rc_before[key] != rc_after.get(key)][:4]
                    findings.append(('C20.rcParams-restored', f'changed keys {diff}'))
                    matplotlib.rcParams.update(rc_before)
            obs2 = dict(obs)
            after = json.dumps(metamorph.observe(obs2), sort_keys=True, default=str)
            if after != before or json.dumps(chunk.prms, sort_keys=True, default=str) != prm_before:
                findings.append(('C20.chunk-untouched', 'data, tables, messages or parameters changed'))
    finally:
        shutil.rmtree(tmp, ignore_errors=True)
    c = obs['chunk']
    return {'k': k, 'family': fam, 'findings': findings, 'n_plots': n_plots, 'n_excursions': n_excursions,
            'n_sets': (int(c.n_slices), int(c.n_groups), int(c.n_layers)),
            'digest': hashlib.sha1(before.encode()).hexdigest()[:16],
            'req': scenes.run_request(obs)}


def run(chk):
    n = 128 if chk.tier == 'quick' else 1600
    chk.rule = ('chunks from families synth/multi/degenerate (no hits, single hit, VV hits, zero-okta layers)/split/chain/crop and '
                'scenes with 9-17 sets (more than the 8 marker styles); per chunk 2-4 diagnostic() calls in sequence with random '
                'upto / show_ceilos / ref_metar / ref_metar_origin / save formats (None, str, list, []), show=False, with un-rendered excursions to the latex / metsymb style in between; non-trivial '
                '= the chunk has at least one slice; distinct by chunk digest')
    # the symbol lookup behind every slice / group / layer label (theorems C20_src_symb_*, about the translated source): the
    # same statement run on the implementation - total on every okta a table can hold, in both styles (the metsymb style
    # cannot be rendered here, so the plots themselves only reach the plain branch)
    common.import_ampycloud()
    from ampycloud import wmo as _wmo
    seen_ = {}
    for v_ in range(0, 10):
        for style_ in (False, True):
            for arg_ in (v_, np.int64(v_)):
                try:
                    sy = _wmo.okta2symb(arg_, use_metsymb=style_)
                    if not isinstance(sy, str):
                        chk.spec_fail('C20.okta-symbol-total', f'okta2symb({arg_!r}, use_metsymb={style_}) returned {type(sy).__name__}',
                                      {'fn': 'okta2symb', 'okta': v_, 'use_metsymb': style_})
                    elif style_ and seen_.setdefault(sy, v_) != v_:
                        chk.spec_fail('C20.okta-symbol-total', f'oktas {seen_[sy]} and {v_} share the symbol {sy!r}',
                                      {'fn': 'okta2symb', 'okta': v_, 'use_metsymb': style_})
                except Exception as e:
                    chk.spec_fail('C20.okta-symbol-total', f'okta2symb({arg_!r}, use_metsymb={style_}) raised {type(e).__name__}: {e}',
                                  {'fn': 'okta2symb', 'okta': v_, 'use_metsymb': style_})
    chk.count('okta_symbol_lookups', 40)
    with Pool(16) as pool:
        results = pool.map(_work, [(chk.seed, k) for k in range(n)], chunksize=1)
    live = [r for r in results if r.get('req')]
    answers = dict(zip([r['k'] for r in live], chk.driver.ask([r['req'] for r in live])))
    plots = 0
    for r in results:
        replay = {'gen': {'seed': chk.seed, 'k': r['k']}}
        chk.count('family_' + r['family'].split(':')[0])
        if 'skip' in r:
            chk.count('skipped_' + r['skip'])
            continue
        plots += r['n_plots']
        chk.count('style_excursions_before_a_plot', r.get('n_excursions', 0))
        if max(r['n_sets']) > 8:
            chk.count('more_sets_than_markers')
        chk.case(r['digest'], nontrivial=r['n_sets'][0] > 0,
                 sample={'k': r['k'], 'family': r['family'], 'n_sets': r['n_sets'], 'plots': r['n_plots']} if r['k'] < 5 else None)
        for clause, detail in r['findings']:
            chk.spec_fail(clause, detail, replay)
        if r['k'] in answers:
            a = scenes.parse_run_answer(answers[r['k']])
            for ne in a['ne']:
                chk.mismatch('cascade model = implementation (plotted chunk)', ne[:300], replay)
    chk.extra['plots_made'] = plots
    chk.explanation = ('Proved on the model: table positions read by the plot exist (n_* = table length), marker/colour indices are '
                       'taken modulo the list length, ncomp lies in the keys of the symbol table, the style context is restored '
                       'whatever the body does. Searched on the real code: totality and absence of side effects of matplotlib-based '
                       'drawing and file writing, which no model of ampycloud can exhibit.')
    return None


def replay(chk, obj):
    case = obj.get('case') or (obj.get('broken_correspondence') or [{}])[0].get('case')
    if case.get('fn') == 'okta2symb':
        common.import_ampycloud()
        from ampycloud import wmo as _wmo
        try:
            print('okta2symb ->', repr(_wmo.okta2symb(case['okta'], use_metsymb=case['use_metsymb'])))
            return 0
        except Exception as e:
            print(f'okta2symb({case["okta"]}, use_metsymb={case["use_metsymb"]}) raised {type(e).__name__}: {e}')
            return 1
    g = case['gen']
    r = _work((g['seed'], g['k']))
    print({k: v for k, v in r.items() if k != 'req'})
    return 1 if r['findings'] else 0


LEVEL = 'other'
