"""C10 — metamorphic check on the real code + model tie of the base frame (see harness/metamorph.py)."""
from .. import metamorph

PROP = 'C10'


def run(chk):
    n = 480 if chk.tier == 'quick' else 5000
    chk.rule = ('a base scene (families synth/crop/split/chain/exact/degenerate) and one transformation of its frame '
                + ('(index relabelling: ' + ', '.join(metamorph.LABELINGS) + '; layout: ' + ', '.join(metamorph.LAYOUTS) + ')'
                   if PROP == 'C10' else '(ceilometer renaming: ' + ', '.join(metamorph.RENAMINGS) + ', exclusion list mapped)')
                + '; both run through the real cascade, everything observable compared bit for bit; the base run is also '
                  're-run by the Lean model; non-trivial = the base scene reports something other than NCD; distinct by digest')
    metamorph.run_metamorph(chk, PROP, n)
    return None


def replay(chk, obj):
    return metamorph.replay_metamorph(chk, obj, PROP)
