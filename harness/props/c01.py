"""C01 — table-level check (see harness/tablecheck.py and DESIGN.md §6 C01)."""
from .. import pipecheck, tablecheck

PROP = 'C01'


def run(chk):
    n = 600 if chk.tier == 'quick' else 6000
    chk.rule = ('scenes from families synth / exact (okta and MSA boundaries) / degenerate / multi (>3 reportable '
                'layers), run stage by stage through the real pipeline; every level (slices, groups, layers) is one '
                'table+message compared with the model and checked against the spec predicates; non-trivial = some '
                'level reports something other than NCD; distinct by scene digest')
    tablecheck.run_tables(chk, PROP, n)
    # end to end as well (crop-heavy: the high-cloud flag and the message depend on what construction cropped)
    pipecheck.run_pipeline(chk, PROP, n // 2, families=(('crop', 0.4), ('synth', 0.3), ('multi', 0.15), ('exact', 0.15), ('interleave', 0.1), ('owned', 0.15), ('chain', 0.1)))
    return None


def replay(chk, obj):
    case = obj.get('case') or (obj.get('broken_correspondence') or [{}])[0].get('case')
    if case and 'which' not in case and case.get('gen', {}).get('family') in ('crop',) + tuple(f for f, _ in pipecheck.FAMILIES):
        return pipecheck.replay_scene(chk, obj, PROP)
    return tablecheck.replay_scene(chk, obj, PROP)
