"""C01 — table-level check (see harness/tablecheck.py and DESIGN.md §6 C01)."""
from .. import tablecheck

PROP = 'C01'


def run(chk):
    n = 300 if chk.tier == 'quick' else 6000
    chk.rule = ('scenes from families synth / exact (okta and MSA boundaries) / degenerate / multi (>3 reportable '
                'layers), run stage by stage through the real pipeline; every level (slices, groups, layers) is one '
                'table+message compared with the model and checked against the spec predicates; non-trivial = some '
                'level reports something other than NCD; distinct by scene digest')
    tablecheck.run_tables(chk, PROP, n)
    return None


def replay(chk, obj):
    return tablecheck.replay_scene(chk, obj, PROP)
