"""C13 — concurrent or interleaved chunks with per-call parameters do not interfere (partial).

Proof part: theorems C13_frame / C13_projection / C13_outputs / C13_commute on the model (a stage call
touches one chunk only).  Tie / search on the real code:
 (a) every interleaving, at stage granularity, of the stage sequences (find_slices, find_groups,
     find_layers, metar_msg) of 2 chunks (70 schedules, quick) / 3 chunks (34 650, thorough) with distinct data
     and per-call parameters: every chunk must end bit-identical to its isolated run (which the model reproduces);
 (b) real threads with seeded, replayable pre-emption at source-line granularity inside ampycloud/* (a
     baton is handed between threads at `line` trace events), and systematically: one thread is paused before
     each distinct source line it executes while the other runs to completion; numerical libraries pinned
     to one thread;
 (c) free-running threads with a tiny switch interval.
(b) and (c) are searches, not proofs.
"""
from __future__ import annotations

import hashlib
import itertools
import os
import random

import numpy as np
import sys
import threading
import warnings
from multiprocessing import Pool

from .. import common, metamorph, pipecheck, scenes

STAGES = ['fs', 'fg', 'fl', 'q']
KERNEL_CLAUSE = 'under concurrency a chunk hands np.percentile the arguments of its isolated run (frame theorem C13_frame)'


def make_chunks(seed, k, n):
    """n scenes with distinct data and per-call parameters (distinct MSA / okta buffers so that sharing shows)."""
    out = []
    for j in range(n):
        rng = random.Random(f'{seed}:c13:{k}:{j}')
        fam = rng.choice(['split', 'split', 'chain', 'synth', 'multi', 'drift', 'split'])
        rows, prms, _ = pipecheck.gen_scene(seed, 1000 * k + j, fam)
        prms = dict(prms)
        prms.setdefault('MAX_HITS_OKTA0', rng.choice([0, 1, 2, 3, 4]))
        prms.setdefault('MSA', rng.choice([None, 3000 + 1000 * j, 20000]))
        prms.setdefault('BASE_LVL_HEIGHT_PERC', rng.choice([0, 5, 10 + 10 * j, [5, 100, 50][j % 3]]))
        prms.setdefault('BASE_LVL_LOOKBACK_PERC', [100, 10, 40][j % 3])
        # distinct values at every depth of the parameter tree (depth-3 leaves included)
        lay = dict(prms.get('LAYERING_PRMS', {}))
        kw = dict(lay.get('gmm_kwargs', {}))
        kw.setdefault('delta_mul_gain', [0.95, 0.5, 1.0][j % 3])
        kw.setdefault('rescale_0_to_x', [100, 10, None][j % 3])
        lay['gmm_kwargs'] = kw
        lay.setdefault('min_okta_to_split', [2, 0, 1][j % 3])
        prms['LAYERING_PRMS'] = lay
        sli = dict(prms.get('SLICING_PRMS', {}))
        sli.setdefault('height_scale_kwargs', {'min_range': [1000, 200, 5000][j % 3]})
        prms['SLICING_PRMS'] = sli
        prms.setdefault('LOWESS', {'frac': [0.35, 0.6, 0.2][j % 3]})
        out.append((rows, prms))
    if k % 2 == 1 and n >= 2:
        # twin chunks: the SAME hits, per-call parameters differing in a few leaves only (anything keyed on the data
        # alone - a cache, a memo - would hand one chunk the other's intermediate results)
        rng = random.Random(f'{seed}:c13twin:{k}')
        rows0, prms0 = out[0]
        for j in range(1, n):
            pj = pipecheck.twin_prms(rng, prms0, j)
            out[j] = (list(rows0), pj)
    if k % 5 == 3 and n >= 2:
        # one list object (a fleet-wide exclusion list) referenced from the per-call dictionary of every chunk of the set,
        # naming ceilometers that some chunks have and others do not
        names_all = sorted({r[0] for rows_, _ in out for r in rows_})
        some = sorted({r[0] for r in out[0][0]})
        shared = [some[-1]] + [c for c in names_all if c not in some][:1] + ['not-here']
        out = [(rows_, dict(prms_, EXCLUDE_FOR_BASE_HEIGHT_CALC=shared)) for rows_, prms_ in out]
    if k % 5 == 2:
        # every chunk of the set in the same non-canonical spelling; ceilometer ids 1, 2, ... (as ints) and one of them
        # excluded from the base heights, so that the normalisation matters for the result
        vr = random.Random(f'{seed}:c13variant:{k}')
        variant = vr.choice(['int_ceilo', 'int_ceilo', 'float_type', 'obj_all'])
        new = []
        for rows_, prms_ in out:
            names = sorted({r[0] for r in rows_})
            m = {c: str(i + 1) for i, c in enumerate(names)}
            rr_ = VRows((m[c], dt, h, t) for c, dt, h, t in rows_)
            rr_.variant = variant
            p_ = dict(prms_)
            if len(names) > 1:
                p_['EXCLUDE_FOR_BASE_HEIGHT_CALC'] = [m[names[-1]]]
            elif 'EXCLUDE_FOR_BASE_HEIGHT_CALC' in p_:
                p_['EXCLUDE_FOR_BASE_HEIGHT_CALC'] = [m.get(c, c) for c in p_['EXCLUDE_FOR_BASE_HEIGHT_CALC']]
            new.append((rr_, p_))
        out = new
    return out


class VRows(list):
    """Rows of a chunk together with the spelling of the caller's table (None = canonical dtypes)."""
    variant = None


def frame_of(rows):
    """The caller's table: for some chunk sets every chunk comes with the same non-canonical spelling (integer
    ceilometer ids, float hit types) that the checker has to normalise for every chunk anew."""
    df = scenes.make_frame(rows)
    v = getattr(rows, 'variant', None)
    if v == 'int_ceilo':
        df['ceilo'] = np.array([int(c) for c, *_ in rows], dtype='int64')
    elif v == 'float_type':
        df['type'] = df['type'].astype(float)
    elif v == 'obj_all':
        df = df.astype(object)
    return df


_KLOG = {}     # thread ident -> list of digests of the arguments this thread handed to np.percentile


def _install_kernel_log():
    """What a chunk asks of the numerical kernels is part of what it computes: the arguments every thread passes to
    `np.percentile` (the values looked back over and the percentage - i.e. the base-level parameters in force) are
    logged per thread, so that a chunk working with another chunk's parameters shows even where the final tables happen
    to agree."""
    if getattr(np.percentile, '_c13_logged', False):
        return
    orig = np.percentile

    def percentile(a, q, *args, **kwargs):
        log = _KLOG.get(threading.get_ident())
        if log is not None:
            try:
                log.append(hashlib.sha1(np.asarray(a, dtype=float).tobytes() + repr(float(q)).encode()).hexdigest()[:12])
            except Exception:
                log.append('unhashable')
        return orig(a, q, *args, **kwargs)
    percentile._c13_logged = True
    np.percentile = percentile


def logged_run(amp, rows, prms):
    """ampycloud.run on the caller's table with per-call parameters, on this thread; returns (chunk, kernel log)."""
    _install_kernel_log()
    me = threading.get_ident()
    _KLOG[me] = []
    try:
        c = amp.run(frame_of(rows), prms=dict(prms))
    finally:
        log = _KLOG.pop(me, [])
    return c, log


def isolated(rows, prms):
    with warnings.catch_warnings():
        warnings.simplefilter('ignore')
        return metamorph.observe(scenes.run_scene(rows, prms, frame=frame_of(rows)))


def local_logs(amp, specs):
    """Reference kernel logs: every chunk of the set run alone, one after the other, in THIS process (twice; the second log
    counts, so that anything a third-party library asks of np.percentile the first time one of its code paths is taken - it
    differs between a spawned and a forked interpreter - is out of the comparison)."""
    out = []
    for rows, prms in specs:
        try:
            with warnings.catch_warnings():
                warnings.simplefilter('ignore')
                logged_run(amp, rows, prms)
                out.append(logged_run(amp, rows, prms)[1])
        except Exception as e:
            out.append(f'{type(e).__name__}')
    return out


def apply(chunk, op):
    if op == 'fs':
        chunk.find_slices()
    elif op == 'fg':
        chunk.find_groups()
    elif op == 'fl':
        chunk.find_layers()
    else:
        chunk.metar_msg()


def observe_chunk(c):
    return {
        'data': [(common.frac(dt), common.frac(h), t) for _, dt, h, t in scenes.data_rows(c.data)],
        'sids': [int(v) for v in c.data['slice_id']], 'gids': [int(v) for v in c.data['group_id']],
        'lids': [int(v) for v in c.data['layer_id']],
        'slices': scenes.table_rows(c.slices), 'groups': scenes.table_rows(c.groups), 'layers': scenes.table_rows(c.layers),
        'msgs': [c.metar_msg(w) for w in ('slices', 'groups', 'layers')], 'flag': bool(c.clouds_above_msa_buffer),
    }


def schedules(n):
    """All interleavings of n sequences of 4 ordered stage calls: multiset permutations of chunk indices."""
    def rec(counts, prefix):
        if all(c == 0 for c in counts):
            yield list(prefix)
            return
        for i, c in enumerate(counts):
            if c:
                counts[i] -= 1
                prefix.append(i)
                yield from rec(counts, prefix)
                prefix.pop()
                counts[i] += 1
    yield from rec([4] * n, [])


def _fresh_ref(args):
    """The isolated run of one chunk in a fresh interpreter (spawned, one task per process): nothing any other
    chunk did can have touched it."""
    seed, k, n, j = args
    common.import_ampycloud()
    rows, prms = make_chunks(seed, k, n)[j]
    return isolated(rows, prms)


def _interleave(args):
    seed, k, n, sched_slice, refs = args
    common.import_ampycloud()
    from ampycloud.data import CeiloChunk
    specs = make_chunks(seed, k, n)
    bad = []
    count = 0
    with warnings.catch_warnings():
        warnings.simplefilter('ignore')
        for sched in sched_slice:
            chunks = [CeiloChunk(frame_of(r), prms=dict(p)) for r, p in specs]
            pos = [0] * n
            try:
                for i in sched:
                    apply(chunks[i], STAGES[pos[i]])
                    pos[i] += 1
                for i, c in enumerate(chunks):
                    ob = observe_chunk(c)
                    ref = {key: refs[i][key] for key in ob}
                    if ob != ref:
                        bad.append((sched, i, [key for key in ob if ob[key] != ref[key]]))
            except Exception as e:
                bad.append((sched, -1, f'{type(e).__name__}: {e}'))
            count += 1
    return {'k': k, 'count': count, 'bad': bad[:3]}


class Baton:
    """Seeded pre-emption at `line` events inside ampycloud: only the baton holder runs."""

    def __init__(self, n, seed, p):
        self.cv = threading.Condition()
        self.turn = 0
        self.alive = set(range(n))
        self.rng = random.Random(seed)
        self.p = p
        self.switches = 0
        self.root = str(common.REPO / 'src' / 'ampycloud')

    def wait_turn(self, tid):
        with self.cv:
            while self.turn != tid:
                self.cv.wait(timeout=30)

    def maybe_switch(self, tid):
        with self.cv:
            if len(self.alive) > 1 and self.rng.random() < self.p:
                others = sorted(self.alive - {tid})
                self.turn = self.rng.choice(others)
                self.switches += 1
                self.cv.notify_all()
                while self.turn != tid:
                    self.cv.wait(timeout=30)

    def done(self, tid):
        with self.cv:
            self.alive.discard(tid)
            if self.alive and self.turn == tid:
                self.turn = sorted(self.alive)[0]
            self.cv.notify_all()

    def tracer(self, tid):
        def local(frame, event, arg):
            if event == 'line':
                self.maybe_switch(tid)
            return local

        def glob(frame, event, arg):
            if event == 'call' and frame.f_code.co_filename.startswith(self.root):
                return local
            return None
        return glob


def _threads(args):
    seed, k, n, mode, refs = args
    amp = common.import_ampycloud()
    specs = make_chunks(seed, k, n)
    klocal = local_logs(amp, specs)
    results = [None] * n
    errors = [None] * n
    baton = Baton(n, f'{seed}:{k}', 0.02) if mode == 'baton' else None

    def body(i):
        try:
            if baton:
                baton.wait_turn(i)
                sys.settrace(baton.tracer(i))
            with warnings.catch_warnings():
                warnings.simplefilter('ignore')
                c, klog = logged_run(amp, specs[i][0], specs[i][1])
                ob = observe_chunk(c)
                ob['kernel_args'] = klog
            results[i] = ob
        except Exception as e:
            errors[i] = f'{type(e).__name__}: {e}'
        finally:
            sys.settrace(None)
            if baton:
                baton.done(i)

    old = sys.getswitchinterval()
    if mode == 'free':
        sys.setswitchinterval(1e-6)
    try:
        ths = [threading.Thread(target=body, args=(i,)) for i in range(n)]
        for t in ths:
            t.start()
        for t in ths:
            t.join(timeout=600)
    finally:
        sys.setswitchinterval(old)
    bad = []
    for i in range(n):
        if errors[i]:
            bad.append((i, errors[i]))
        elif results[i] is None:
            bad.append((i, 'thread did not finish'))
        else:
            ref = {key: (klocal[i] if key == 'kernel_args' else refs[i][key]) for key in results[i]}
            if results[i] != ref:
                bad.append((i, [key for key in ref if results[i][key] != ref[key]]))
    return {'k': k, 'mode': mode, 'bad': bad, 'switches': baton.switches if baton else None}


def systematic_set(seed):
    """The pair of chunks for the line-by-line pre-emption: the first set (distinct hits, distinct per-call parameters) in
    which BOTH chunks have a group that the mixture really splits, so that every line of the layering - the separation test
    of the sub-layers included - is on the path of both threads."""
    amp = common.import_ampycloud()
    for kk in range(200, 260, 2):
        if kk % 5 in (2, 3):
            continue
        try:
            ok = True
            for rows, prms in make_chunks(seed, kk, 2):
                with warnings.catch_warnings():
                    warnings.simplefilter('ignore')
                    c = amp.run(frame_of(rows), prms=dict(prms))
                if not (c.groups is not None and len(c.groups) and (c.groups['ncomp'] > 1).any()):
                    ok = False
                    break
            if ok:
                return kk
        except Exception:
            continue
    return 200


def _locations(spec, root):
    """Distinct source lines of ampycloud executed by one run, in order of first execution."""
    amp = common.import_ampycloud()
    seen, order = set(), []

    def local(frame, event, arg):
        if event == 'line':
            loc = (frame.f_code.co_filename, frame.f_lineno)
            if loc not in seen:
                seen.add(loc); order.append(loc)
        return local

    def glob(frame, event, arg):
        if event == 'call' and frame.f_code.co_filename.startswith(root):
            return local
        return None
    sys.settrace(glob)
    try:
        with warnings.catch_warnings():
            warnings.simplefilter('ignore')
            amp.run(frame_of(spec[0]), prms=dict(spec[1]))
    finally:
        sys.settrace(None)
    return order


def _systematic(args):
    """Thread A is paused the first time it is about to execute source line `loc`; thread B then runs to
    completion; A resumes. Both must end exactly as in isolation."""
    seed, k, locs, refs = args
    amp = common.import_ampycloud()
    specs = make_chunks(seed, k, 2)
    klocal = local_logs(amp, specs)
    root = str(common.REPO / 'src' / 'ampycloud')
    bad = []
    for who in (0, 1):
        a, b = who, 1 - who
        for loc in locs:
            reached, resume = threading.Event(), threading.Event()
            paused = [False]
            out = {}

            def local(frame, event, arg):
                if event == 'line' and not paused[0] and (frame.f_code.co_filename, frame.f_lineno) == loc:
                    paused[0] = True
                    reached.set()
                    resume.wait(timeout=120)
                return local

            def glob(frame, event, arg):
                if event == 'call' and frame.f_code.co_filename.startswith(root):
                    return local
                return None

            def body_a():
                sys.settrace(glob)
                try:
                    with warnings.catch_warnings():
                        warnings.simplefilter('ignore')
                        c_, kl_ = logged_run(amp, specs[a][0], specs[a][1])
                        out['a'] = dict(observe_chunk(c_), kernel_args=kl_)
                except Exception as e:
                    out['a'] = f'{type(e).__name__}: {e}'
                finally:
                    sys.settrace(None)
                    reached.set()

            ta = threading.Thread(target=body_a)
            ta.start()
            reached.wait(timeout=120)
            try:
                with warnings.catch_warnings():
                    warnings.simplefilter('ignore')
                    c_, kl_ = logged_run(amp, specs[b][0], specs[b][1])
                    out['b'] = dict(observe_chunk(c_), kernel_args=kl_)
            except Exception as e:
                out['b'] = f'{type(e).__name__}: {e}'
            resume.set()
            ta.join(timeout=300)
            for tag, idx in (('a', a), ('b', b)):
                got = out.get(tag)
                ref = {key: (klocal[idx] if key == 'kernel_args' else refs[idx][key]) for key in got} if isinstance(got, dict) else None
                if got != ref:
                    what = got if not isinstance(got, dict) else [key for key in got if got[key] != ref[key]]
                    bad.append((who, [os.path.basename(loc[0]), loc[1]], idx, what))
    bad.sort(key=lambda b_: b_[3] == ['kernel_args'])       # differences in the results first
    return {'k': k, 'n': 2 * len(locs), 'bad': bad[:3]}


def run(chk):
    quick = chk.tier == 'quick'
    common.import_ampycloud()
    n_chunks = 2 if quick else 3
    all_scheds = list(schedules(n_chunks))
    n_sets = 3 if quick else 1
    chk.rule = (f'(a) all {len(all_scheds)} interleavings at stage granularity of {n_chunks} chunks x 4 stage calls, on {n_sets} '
                'sets of scenes with distinct data (odd sets: the same hits) and per-call parameters, references = isolated runs in fresh interpreters; (b) 2-3 threads running ampycloud.run under seeded '
                'baton pre-emption at line events inside ampycloud/*; (c) free-running threads with a 1 us switch interval; each '
                'chunk compared bit for bit with its isolated run; non-trivial = every schedule / thread set (all chunks report '
                'clouds); distinct by schedule or by seed')
    n_thr = 24 if quick else 400
    # isolated references: every chunk alone in a fresh interpreter
    import multiprocessing
    ksys = systematic_set(chk.seed)
    chk.extra['systematic_set'] = ksys
    need = [(k, n_chunks) for k in range(n_sets)] + [(100 + j, 2 + j % 2) for j in range(n_thr)] + [(ksys, 2)]
    ref_tasks = [(chk.seed, k, n, j) for k, n in need for j in range(n)]
    with multiprocessing.get_context('spawn').Pool(16, maxtasksperchild=1) as fp:
        fresh = fp.map(_fresh_ref, ref_tasks, chunksize=1)
    refs_of = {}
    for (sd, k, n, j), ob in zip(ref_tasks, fresh):
        refs_of.setdefault(k, [None] * n)[j] = ob
    chk.count('isolated_references_in_fresh_processes', len(ref_tasks))
    chk.count('twin_chunk_sets_same_hits_different_parameters', sum(1 for k, n in need if k % 2 == 1))
    tasks = []
    for k in range(n_sets):
        per = max(1, len(all_scheds) // 16 + 1)
        for s in range(0, len(all_scheds), per):
            tasks.append((chk.seed, k, n_chunks, all_scheds[s:s + per], refs_of[k]))
    thr_tasks = [(chk.seed, 100 + j, 2 + j % 2, 'baton' if j % 3 else 'free', refs_of[100 + j]) for j in range(n_thr)]
    # systematic pre-emption: pause one thread before each distinct source line of ampycloud it executes
    root = str(common.REPO / 'src' / 'ampycloud')
    all_locs = _locations(make_chunks(chk.seed, ksys, 2)[0], root)
    small = [l for l in all_locs if not l[0].endswith(os.sep + 'data.py') and not l[0].endswith('logger.py')]
    big = [l for l in all_locs if l[0].endswith(os.sep + 'data.py')]
    locs = small + (chk.rng.sample(big, min(len(big), 60)) if quick else big)
    sys_tasks = [(chk.seed, ksys, locs[i::16], refs_of[ksys]) for i in range(16)]
    with Pool(16) as pool:
        inter = pool.map(_interleave, tasks, chunksize=1)
        thr = pool.map(_threads, thr_tasks, chunksize=1)
        systematic = pool.map(_systematic, sys_tasks, chunksize=1)
    for r in systematic:
        chk.count('systematic_line_preemptions', r['n'])
        for j in range(r['n']):
            chk.case(('systematic', id(r), j))
        for who, loc, idx, what in r['bad']:
            rp_ = {'gen': {'seed': chk.seed, 'k': r['k'], 'mode': 'systematic'}, 'loc': loc, 'who': who}
            msg_ = f'thread {who} paused before {loc[0]}:{loc[1]} while the other ran to completion: chunk {idx}: {what}'
            if what == ['kernel_args']:
                # same tables and messages, but other questions put to the numerical kernels than in isolation: the tie
                # with the frame theorem (a stage touches its own chunk and reads its own snapshot) is broken; whether the
                # property fails with it is for the search to show
                chk.mismatch(KERNEL_CLAUSE, msg_, rp_)
            else:
                chk.spec_fail('C13.threads-equal-isolated-run', msg_, rp_)
    for r in inter:
        chk.count('interleavings', r['count'])
        for j in range(r['count']):
            chk.case(('sched', r['k'], id(r), j))
        for sched, i, what in r['bad']:
            chk.spec_fail('C13.interleaved-stages-equal-isolated-run', f'schedule {sched}: chunk {i}: {what}',
                          {'gen': {'seed': chk.seed, 'k': r['k'], 'n': n_chunks}, 'schedule': sched})
    total_sw = 0
    for r in thr:
        chk.count('thread_sets_' + r['mode'])
        total_sw += r['switches'] or 0
        chk.case(('threads', r['k'], r['mode']), sample={'k': r['k'], 'mode': r['mode'], 'switches': r['switches']} if r['k'] < 104 else None)
        for i, what in r['bad']:
            if what == ['kernel_args']:
                chk.mismatch(KERNEL_CLAUSE, f"{r['mode']} threads, set {r['k']}: chunk {i}: {what}",
                             {'gen': {'seed': chk.seed, 'k': r['k'], 'mode': r['mode']}})
            else:
                chk.spec_fail('C13.threads-equal-isolated-run', f"{r['mode']} threads, set {r['k']}: chunk {i}: {what}",
                              {'gen': {'seed': chk.seed, 'k': r['k'], 'mode': r['mode']}})
    chk.extra['baton_switches'] = total_sw
    chk.exhaustive = True
    chk.explanation = ('Stage-granularity interleavings are enumerated exhaustively and the frame/projection theorems cover them '
                       'for any number of chunks; thread schedules below stage granularity (line-level pre-emption, free running) '
                       'are a seeded search: pre-emption inside C extensions and library thread pools cannot be exhibited by the model.')
    # the isolated runs themselves are tied to the model by C05-C08's RUN correspondence; one per scene here as well
    reqs = []
    for k in range(n_sets):
        for rows, prms in make_chunks(chk.seed, k, n_chunks):
            with warnings.catch_warnings():
                warnings.simplefilter('ignore')
                obs = scenes.run_scene(rows, prms)
            if not obs['exc']:
                q = scenes.run_request(obs)
                if q:
                    reqs.append(q)
    for ans in chk.driver.ask(reqs):
        a = scenes.parse_run_answer(ans)
        for ne in a['ne']:
            chk.mismatch('cascade model = implementation (isolated run)', ne[:300], {'gen': {'seed': chk.seed}})
    return None


def _refs_now(seed, k, n):
    import multiprocessing
    with multiprocessing.get_context('spawn').Pool(min(n, 4), maxtasksperchild=1) as fp:
        return fp.map(_fresh_ref, [(seed, k, n, j) for j in range(n)], chunksize=1)


def replay(chk, obj):
    case = obj.get('case') or {}
    g = case.get('gen', {})
    if 'schedule' in case:
        r = _interleave((g['seed'], g['k'], g['n'], [case['schedule']], _refs_now(g['seed'], g['k'], g['n'])))
        print(r)
        return 1 if r['bad'] else 0
    if g.get('mode') == 'systematic':
        root = str(common.REPO / 'src' / 'ampycloud')
        locs = [l for l in _locations(make_chunks(g['seed'], g['k'], 2)[0], root)
                if os.path.basename(l[0]) == case['loc'][0] and l[1] == case['loc'][1]]
        r = _systematic((g['seed'], g['k'], locs, _refs_now(g['seed'], g['k'], 2)))
        print(r)
        return 1 if r['bad'] else 0
    if 'mode' in g:
        r = _threads((g['seed'], g['k'], 2 + (g['k'] - 100) % 2, g['mode'], _refs_now(g['seed'], g['k'], 2 + (g['k'] - 100) % 2)))
        print(r)
        return 1 if r['bad'] else 0
    return 2
