"""C11 — running never modifies caller data, caller parameters or the global parameters; snapshots are isolated.

Tie: histories of construct / edit / set_prms / reset_prms operations on the real objects; after every
operation the contents and the alias classes (object identities) of the global dictionary, every caller
dictionary and every chunk snapshot are observed and must be reproduced by the Lean model (`SYS`).
Directly on the implementation: construction leaves global and caller dictionaries (contents and
identities) and the caller's DataFrame untouched; global edits leave existing snapshots untouched;
snapshot edits leave the global, the callers and the other snapshots untouched.
"""
from __future__ import annotations

import copy
import hashlib
import random
import warnings
from multiprocessing import Pool

import numpy as np

from .. import common, metamorph, pipecheck, scenes, sysworld, tablecheck


def split_obs(o):
    parts = o.split(' ; ')
    roots = {'G': [], 'C': [], 'S': []}
    for p in parts[1:]:
        roots[p[0]].append(p[2:].split(' # ')[0])      # contents only; identities are compared through the model
    return parts[0], roots, parts[1:]


def _buf(col):
    try:
        return col.values.__array_interface__['data'][0]
    except Exception:      # extension arrays (strings) and object columns: no stable buffer address to compare
        return 0


def frame_fingerprint(df):
    return (list(df.columns), [str(t) for t in df.dtypes], list(map(repr, df.index)),
            [tuple(map(repr, r)) for r in df.itertuples(index=False)],
            [_buf(df.iloc[:, i]) if df.iloc[:, i].dtype != object else 0 for i in range(df.shape[1])])


def _work(args):
    seed, k = args
    common.import_ampycloud()
    from ampycloud import dynamic
    import ampycloud
    rng = random.Random(f'{seed}:c11:{k}')
    defaults = common.packaged_defaults()
    ops = sysworld.gen_history(rng, defaults, rng.randint(5, 16), mistyped=(k % 5 == 0))
    req, obs = sysworld.run_history(ops)
    findings = []
    prev = None
    for op, o in zip(ops, obs):
        out, roots, raw = split_obs(o)
        if prev is not None:
            pout, proots, praw = prev
            kind = op[0]
            if kind == 'construct':
                if raw[:len(praw)] != praw and not out.startswith('crash'):
                    findings.append(('C11.construct-leaves-global-callers-and-older-snapshots-untouched',
                                     f'op {op[:2]}: an existing root changed (contents or identity)'))
            if kind in ('setGlobal', 'setPrms', 'reset'):
                if roots['S'] != proots['S']:
                    findings.append(('C11.snapshot-fixed-under-global-edits', f'op {kind}: a snapshot changed'))
                if roots['C'] != proots['C']:
                    findings.append(('C11.caller-dict-untouched', f'op {kind}: a caller dictionary changed'))
            if kind == 'setSnap' and out == 'ok':
                if roots['G'] != proots['G'] or roots['C'] != proots['C']:
                    findings.append(('C11.snapshot-edit-does-not-leak', 'global or caller dictionary changed'))
                others = [i for i in range(len(proots['S'])) if i != op[1]]
                if any(roots['S'][i] != proots['S'][i] for i in others):
                    findings.append(('C11.snapshot-edit-does-not-leak', 'another snapshot changed'))
        prev = (out, roots, raw)
    # caller's DataFrame and per-call dict under a full run
    rows, prms, _ = pipecheck.gen_scene(seed, k, rng.choice(['synth', 'exact', 'degenerate', 'drift', 'drift', 'split']))
    prms = copy.deepcopy(prms)
    if rng.random() < 0.5:
        # list-valued leaves given per call, in any order (the code only takes their min / max or indexes them)
        prms.setdefault('GROUPING_PRMS', {}).setdefault('height_scale_range', rng.choice([[500, 100], [400, 150]]))
    if rng.random() < 0.3:
        prms.setdefault('EXCLUDE_FOR_BASE_HEIGHT_CALC', ['zz', rows[0][0]])
    if rng.random() < 0.5:
        # leaves that do not change the processing belong to the per-call dictionary as well (the plotting style)
        prms['MPL_STYLE'] = rng.choice(['latex', 'metsymb', 'base'])
    df = scenes.make_frame(rows)
    if rng.random() < 0.3:
        df.index = [rng.randrange(50) for _ in range(len(df))]
    layouts = []
    if rng.random() < 0.6:
        # accepted tables that the checker has to normalise on the fly (other dtypes, extra columns, column order):
        # the normalisation must happen on the package's own copy
        for how in rng.sample(metamorph.LAYOUTS, rng.choice([1, 1, 2])):
            df = metamorph.relayout(df, how, rng)
            layouts.append(how)
    route = rng.choice(['run', 'run', 'chunk', 'metar'])
    p = copy.deepcopy(prms)
    if rng.random() < 0.4:
        # values as they come out of arrays and tables: NumPy scalars (the caller keeps working with them afterwards)
        p = scenes.numpy_typed(p, rng)
    fp_before, g_before = frame_fingerprint(df), sysworld.tree(dynamic.AMPYCLOUD_PRMS)
    def coarse(v):
        try:
            return sysworld.observe('x', [('C', v)])
        except TypeError:          # NumPy leaves: the object-by-object snapshot below covers them
            return None
    p_before = coarse(p)

    def exact(v):
        # the caller's dictionary object by object: which object sits where, of which type, printing how
        if isinstance(v, dict):
            return ('D', id(v), type(v).__name__, tuple((k, exact(x)) for k, x in v.items()))
        if isinstance(v, (list, tuple)):
            return ('A', id(v), type(v).__name__, tuple(exact(x) for x in v))
        return ('L', id(v), type(v).__name__, repr(v))
    p_exact = exact(p)
    with warnings.catch_warnings():
        warnings.simplefilter('ignore')
        try:
            if route == 'run':
                chunk = ampycloud.run(df, prms=p)
                chunk.metar_msg()
            elif route == 'chunk':
                from ampycloud.data import CeiloChunk
                chunk = CeiloChunk(df, prms=p)
                chunk.find_slices(); chunk.find_groups(); chunk.find_layers()
            else:
                ampycloud.metar(df)
        except Exception as e:
            findings.append(('C11.run-raised', f'{type(e).__name__}'))
    # snapshot isolation at the level of behaviour: with every leaf given per call, a chunk must work with its own
    # snapshot whatever the global holds before, during and after (every result-relevant leaf of the global poisoned)
    if k % 2 == 0:
        full = common.packaged_defaults()
        scenes._nested_update(full, copy.deepcopy(prms))
        with warnings.catch_warnings():
            warnings.simplefilter('ignore')
            ref = metamorph.observe(scenes.run_scene(rows, full))
            saved = dynamic.AMPYCLOUD_PRMS
            poisoned = copy.deepcopy(saved)
            scenes.poison_global(poisoned)
            dynamic.AMPYCLOUD_PRMS = poisoned
            try:
                got = metamorph.observe(scenes.run_scene(rows, full, route=rng.choice(['stepwise', 'run'])))
            finally:
                dynamic.AMPYCLOUD_PRMS = saved
        if got != ref:
            findings.append(('C11.chunk-works-with-its-own-snapshot',
                             f'with every leaf given per call the result depends on the global: differs in {[x for x in ref if ref.get(x) != got.get(x)] or list(set(ref) ^ set(got))}'))
    # a chunk obtained without per-call parameters shares no mutable object with the global (list leaves included)
    if k % 3 == 0:
        with warnings.catch_warnings():
            warnings.simplefilter('ignore')
            try:
                for how_, c2 in (('run', ampycloud.run(scenes.make_frame(rows))), ('CeiloChunk', __import__('ampycloud').data.CeiloChunk(scenes.make_frame(rows)))):
                    def walk(a, b, path=()):
                        out = []
                        if isinstance(a, (dict, list)) and a is b:
                            out.append('.'.join(map(str, path)) or '<root>')
                        if isinstance(a, dict) and isinstance(b, dict):
                            for key in a:
                                if key in b:
                                    out += walk(a[key], b[key], path + (key,))
                        return out
                    shared = walk(c2.prms, dynamic.AMPYCLOUD_PRMS)
                    if shared:
                        findings.append(('C11.snapshot-shares-nothing-with-the-global',
                                         f'{how_}(data) without per-call parameters: chunk.prms and the global share {shared[:4]}'))
            except Exception as e:
                findings.append(('C11.run-raised', f'{type(e).__name__}'))
    if frame_fingerprint(df) != fp_before:
        findings.append(('C11.caller-frame-untouched', f'the caller DataFrame changed (values, dtypes, columns, index or buffers); route {route}, layout {layouts}'))
    if coarse(p) != p_before:
        findings.append(('C11.caller-dict-untouched', 'the per-call dictionary changed under run()'))
    elif exact(p) != p_exact:
        findings.append(('C11.caller-dict-untouched', 'objects of the per-call dictionary were replaced under run() '
                         '(equal values, other objects or types): ' + str([a for a, b in zip(str(p_exact).split(), str(exact(p)).split()) if a != b][:4])))
    if sysworld.tree(dynamic.AMPYCLOUD_PRMS) != g_before:
        findings.append(('C11.global-untouched', 'the global dictionary changed under run()'))
    return {'k': k, 'req': req, 'ops': [o[0] for o in ops], 'findings': findings,
            'digest': hashlib.sha1(req.encode()).hexdigest()[:16], 'n_ops': len(ops)}


def run(chk):
    n = 400 if chk.tier == 'quick' else 4000
    chk.rule = ('histories of 5-16 operations out of construct(None | caller dict) / newCaller(nested partial dict, unknown keys '
                'at any depth) / setGlobal / setSnap / setCaller / set_prms(YAML) / reset_prms(all | names | unknown name), on the '
                'real objects; plus one full run() per history on a scene with per-call parameters; non-trivial = at least one '
                'construct and one edit in the history; distinct by the rendered history')
    with Pool(16) as pool:
        results = pool.map(_work, [(chk.seed, k) for k in range(n)], chunksize=2)
    answers = chk.driver.ask([r['req'] for r in results])
    for r, ans in zip(results, answers):
        replay = {'gen': {'seed': chk.seed, 'k': r['k']}}
        for o in r['ops']:
            chk.count('op_' + o)
        chk.case(r['digest'], nontrivial=('construct' in r['ops'] and any(o.startswith('set') or o == 'reset' for o in r['ops'])),
                 sample={'k': r['k'], 'ops': r['ops']} if r['k'] < 5 else None)
        for clause, detail in r['findings']:
            chk.spec_fail(clause, detail, replay)
        if ans.startswith('SYS bad-request'):
            chk.mismatch('what the implementation produced cannot be expressed as a model request (driver: bad-request)', ans[:200], replay)
            continue
        if ans != 'SYS ok':
            chk.mismatch('parameter-world model = implementation (contents and identities)', ans[:400], replay)
    return None


def replay(chk, obj):
    case = obj.get('case') or (obj.get('broken_correspondence') or [{}])[0].get('case')
    g = case['gen']
    r = _work((g['seed'], g['k']))
    ans = chk.driver.ask([r['req']])[0]
    print('ops:', r['ops']); print('findings:', r['findings']); print('model:', ans[:600])
    return 1 if (r['findings'] or ans != 'SYS ok') else 0
