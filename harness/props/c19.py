"""C19 — scalings are order-preserving, invertible and blind to non-detections (float round trip sampled: partial).

Tie: the real `scaler.apply_scaling` (modes shift-and-scale, minmax-scale, step-scale) against the Lean model
over exact rationals on generated arrays (constant, single value, NaNs at every position, physical ranges,
step lists of length 0..4); results compared as checked oracles (1e-9), NaN positions and order exactly;
on the implementation: undo(do(x)) == x within 1e-6 relative with the keywords derived by `convert_kwargs`;
length / order errors of step lists are AmpycloudError.
"""
from __future__ import annotations

import hashlib
import math
import random
import warnings
from multiprocessing import Pool

import numpy as np

from .. import common


def gen_vals(rng):
    n = rng.choice([1, 2, 3, 5, 12, 40])
    kind = rng.choice(['heights', 'heights', 'dts', 'constant', 'integers', 'tiny_span', 'near_edges'])
    if kind == 'heights':
        v = [rng.uniform(0, 30000) for _ in range(n)]
    elif kind == 'dts':
        v = [-rng.uniform(0, 3600) for _ in range(n)]
    elif kind == 'constant':
        v = [float(rng.choice([0, 1500, 99999]))] * n
    elif kind == 'integers':
        v = [float(rng.randint(0, 20000)) for _ in range(n)]
    elif kind == 'near_edges':
        v = [rng.choice([1000, 3000, 8000, 14000, 20000, 2500.5, 1640.42, 9842.52, 0.5]) + rng.choice([0.0, 0.0, -0.25, 0.25, 1.0, -1.0, 1e-9])
             for _ in range(n)]
    else:
        base = rng.uniform(100, 10000)
        v = [base + rng.uniform(0, 1e-3) for _ in range(n)]
    nan_mode = rng.choice(['none', 'none', 'some', 'first', 'last', 'all_but_one', 'all'])
    if nan_mode == 'some':
        v = [x if rng.random() < 0.7 else float('nan') for x in v]
    elif nan_mode == 'first':
        v[0] = float('nan')
    elif nan_mode == 'last':
        v[-1] = float('nan')
    elif nan_mode == 'all_but_one':
        keep = rng.randrange(n)
        v = [x if i == keep else float('nan') for i, x in enumerate(v)]
    elif nan_mode == 'all':
        v = [float('nan')] * n
    return v, kind, nan_mode


def gen_spec(rng, vals):
    mode = rng.choice(['shift', 'shift_none', 'minmax', 'minmax', 'step', 'step', 'step_bad', 'none'])
    if mode == 'shift':
        k = rng.choice([1, 180, 100000, 0.5])
        s = rng.choice([0, 100.5, -900])
        return 'shift-and-scale', {'shift': s, 'scale': k}, f'shift:{common.frac(s)}:{common.frac(k)}'
    if mode == 'shift_none':
        k = rng.choice([1, 180, 100000])
        return 'shift-and-scale', {'scale': k}, f'shift:nan:{common.frac(k)}'
    if mode == 'minmax':
        mr = rng.choice([0, 1, 1000, 5000, 1e-6])
        # a null range (identical values, no minimum range) is part of the domain since F6 was repaired: everything maps onto 0
        return 'minmax-scale', {'min_range': mr}, f'minmax:{common.frac(mr)}'
    if mode == 'step':
        n = rng.choice([0, 1, 2, 3, 4])
        # step edges and scales as people write them: integers, non-integer values (metric limits converted to ft),
        # floats, any mixture (the types of the list entries must not matter, only their values)
        pool = [1000, 3000, 8000, 8000, 14000, 20000, 2500.5, 1640.42, 9842.52, 3000.0, 0.5]
        steps = sorted(rng.choice(pool) for _ in range(n))
        scales = [rng.choice([100, 250, 500, 1000, 100.0, 0.5, 2.5, 333.3]) for _ in range(n + 1)]
        if rng.random() < 0.3:
            scales = [int(x) if float(x).is_integer() else x for x in scales]
            steps = [int(x) if float(x).is_integer() else x for x in steps]
        return 'step-scale', {'steps': steps, 'scales': scales}, \
            'step:{}:{}'.format(','.join(common.frac(x) for x in steps), ','.join(common.frac(x) for x in scales))
    if mode == 'step_bad':
        if rng.random() < 0.5:
            steps, scales = [1000, 500], [1, 2, 3]          # not ordered
        else:
            steps, scales = [1000, 2000], [1, 2]            # incompatible lengths
        return 'step-scale', {'steps': steps, 'scales': scales}, \
            'step:{}:{}'.format(','.join(map(str, steps)), ','.join(map(str, scales)))
    return None, {}, 'none'


def _work(args):
    seed, k = args
    common.import_ampycloud()
    from ampycloud import scaler
    from ampycloud.errors import AmpycloudError
    rng = random.Random(f'{seed}:c19:{k}')
    vals, kind, nan_mode = gen_vals(rng)
    fct, kwargs, spec = gen_spec(rng, vals)
    arr = np.array(vals, dtype=float)
    before = arr.copy()
    findings = []
    # the container the values arrive in: a plain array, or - as `CeiloChunk.data_rescaled` passes them - a column of a
    # table whose row labels are whatever survived the crop (gaps, any order); the result is assigned back to that column
    import pandas as pd
    container = rng.choice(['ndarray', 'ndarray', 'ndarray', 'series', 'series_gapped', 'series_gapped'])
    if container == 'ndarray':
        carrier, frame = arr, None
    else:
        labels = list(range(len(vals))) if container == 'series' else rng.sample(range(0, 3 * len(vals) + 2), len(vals))
        frame = pd.DataFrame({'v': arr.copy()}, index=labels)
        carrier = frame['v']
    with warnings.catch_warnings():
        warnings.simplefilter('ignore')
        with np.errstate(all='ignore'):
            try:
                out = scaler.apply_scaling(carrier, fct, **dict(kwargs))
                if frame is not None:
                    frame['w'] = out                       # label-aligned when a Series comes back, positional otherwise
                    out = frame['w'].to_numpy(dtype=float)
                    if not np.array_equal(frame['v'].to_numpy(), before, equal_nan=True):
                        findings.append(('C19.argument-untouched', 'input column modified'))
                out_tok = ' '.join(common.frac(float(x)) for x in out)
                ok = True
            except AmpycloudError:
                out_tok, ok = 'err', False
            except Exception as e:
                out_tok, ok = 'err', False
                findings.append(('C19.only-AmpycloudError', f'{type(e).__name__}: {e}'))
            if not np.array_equal(before, arr, equal_nan=True):
                findings.append(('C19.argument-untouched', 'input array modified'))
            # round trip with the deterministic keywords
            if ok and fct is not None and not np.all(np.isnan(arr)):
                try:
                    det = scaler.convert_kwargs(arr, fct, **dict(kwargs))
                    det = dict(det); det['mode'] = 'undo'
                    back = scaler.apply_scaling(np.array(out, dtype=float), fct, **det)
                    good = np.allclose(back[~np.isnan(arr)], arr[~np.isnan(arr)], rtol=1e-6, atol=1e-6) and \
                        np.array_equal(np.isnan(back), np.isnan(arr))
                    if not good:
                        findings.append(('C19.undo-restores-the-original', f'spec {spec} vals {vals[:5]}... back {list(back[:5])}'))
                except Exception as e:
                    findings.append(('C19.undo-restores-the-original', f'undo raised {type(e).__name__}: {e}'))
    req = f"SCALE | SPEC {spec} | VALS {' '.join(common.frac(x) for x in vals)} | OUT {out_tok}"
    return {'k': k, 'req': req, 'findings': findings, 'kind': kind, 'nan': nan_mode, 'spec': spec.split(':')[0], 'container': container,
            'digest': hashlib.sha1(req.encode()).hexdigest()[:16], 'n': len(vals)}


def run(chk):
    n = 5000 if chk.size_tier == 'quick' else 40000
    chk.rule = ('arrays of 1..40 values (heights, time deltas, constants, integers, spans down to 1e-3) with NaNs none / some / '
                'first / last / all-but-one / all, scaled by shift-and-scale (explicit and data-derived shift), minmax-scale '
                '(min_range 0..5000) and step-scale (0..4 sorted steps, positive scales; plus ill-formed lists); '
                'non-trivial = at least two non-NaN values and a mode other than none; distinct by request digest')
    with Pool(16) as pool:
        results = pool.map(_work, [(chk.seed, k) for k in range(n)], chunksize=16)
    answers = chk.driver.ask([r['req'] for r in results])
    for r, ans in zip(results, answers):
        replay = {'gen': {'seed': chk.seed, 'k': r['k']}}
        chk.count('mode_' + r['spec']); chk.count('nan_' + r['nan']); chk.count('vals_' + r['kind']); chk.count('container_' + r['container'])
        chk.case(r['digest'], nontrivial=(r['n'] >= 2 and r['spec'] != 'none' and r['nan'] not in ('all', 'all_but_one')),
                 sample={'k': r['k'], 'request': r['req'][:200]} if r['k'] < 4 else None)
        for clause, detail in r['findings']:
            chk.spec_fail(clause, detail, replay)
        if ans == 'SCALE ok':
            continue
        for f in ans[6:].split('; '):
            if f.startswith('SPEC '):
                chk.spec_fail(f[5:], f'{r["req"][:160]}', replay)
            else:
                chk.mismatch('scaler model = implementation', f'{f} :: {r["req"][:160]}', replay)
    return None


def replay(chk, obj):
    case = obj.get('case') or (obj.get('broken_correspondence') or [{}])[0].get('case')
    g = case['gen']
    r = _work((g['seed'], g['k']))
    ans = chk.driver.ask([r['req']])[0]
    print(r['req'][:400]); print('findings:', r['findings']); print('model:', ans)
    return 1 if (r['findings'] or ans != 'SCALE ok') else 0
