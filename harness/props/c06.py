"""C06 — end-to-end cascade check (see harness/pipecheck.py and DESIGN.md §6 C06)."""
from .. import pipecheck

PROP = 'C06'


def run(chk):
    n = 640 if chk.size_tier == 'quick' else 6000
    chk.rule = ('scenes from families synth / exact / degenerate / multi / chain (repeated merges, exact min-sep ties) / '
                'split (mixture engaged, 2-3 modes, any row order, look-back) / crop (hits at and around MSA+buffer) / bundle '
                '(time axis matters) / manyslices (>100 slices); the real cascade is run under recording and re-run by the '
                'Lean model with the recorded third-party answers; non-trivial = some level reports something other than '
                'NCD; distinct by scene digest')
    pipecheck.run_pipeline(chk, PROP, n)
    return None


def replay(chk, obj):
    return pipecheck.replay_scene(chk, obj, PROP)
