"""Scene generation and execution of the real pipeline under recording (DESIGN.md §4.5).

A scene = (input frame rows, per-call parameter dictionary).  Every random choice comes from the
`random.Random` handed in, so a scene is reproduced by (seed, index).  `run_scene` executes the real
code stage by stage and snapshots everything observable after each stage.
"""
from __future__ import annotations

import copy
from fractions import Fraction
import math
import warnings

import numpy as np
import pandas as pd

from . import common, record


# --------------------------------------------------------------------------------------------
# frames
# --------------------------------------------------------------------------------------------
def make_frame(rows, index=None):
    """rows: list of (ceilo:str, dt:float, height:float|nan, type:int) -> frame with the required dtypes."""
    df = pd.DataFrame({
        'ceilo': pd.array([r[0] for r in rows], dtype=pd.StringDtype()),
        'dt': np.array([r[1] for r in rows], dtype=float),
        'height': np.array([r[2] for r in rows], dtype=float),
        'type': np.array([r[3] for r in rows], dtype=int),
    })
    if index is not None:
        df.index = index
    return df


def synth_rows(rng, *, n_ceilos=None, n_steps=None, layers=None, integer=False, same_grid=None,
               vv_frac=0.0, names=None, span=900.0):
    """Synthetic multi-ceilometer scene.  `layers`: list of dicts(height, amp, cov, drift).
    Per (ceilometer, time): the hits present are ranked by height -> types 1, 2, 3...; none -> (NaN, 0).
    """
    n_ceilos = n_ceilos or rng.choice([1, 1, 2, 2, 3, 4])
    n_steps = n_steps or rng.choice([6, 12, 20, 30, 45, 60])
    if layers is None:
        layers = []
        for _ in range(rng.choice([0, 1, 1, 2, 2, 3, 4])):
            layers.append({'height': rng.choice([200, 800, 1500, 2500, 4000, 7000, 9800, 10400, 15000, 30000])
                           + rng.randint(-150, 150),
                           'amp': rng.choice([0, 0, 20, 60, 150, 400]),
                           'cov': rng.choice([0.05, 0.15, 0.3, 0.5, 0.8, 1.0, 1.0]),
                           'drift': rng.choice([0, 0, 0, 300, -400])})
    same_grid = rng.random() < 0.5 if same_grid is None else same_grid
    names = names or [str(i) for i in range(n_ceilos)]
    rows = []
    for c in range(n_ceilos):
        off = 0.0 if same_grid else round(rng.uniform(0, span / n_steps), 3)
        for s in range(n_steps):
            dt = -span + s * (span / n_steps) + off
            if integer:
                dt = float(round(dt))
            hs = []
            for L in layers:
                if rng.random() < L['cov']:
                    h = L['height'] + L['drift'] * (s / max(1, n_steps - 1))
                    if L['amp']:
                        h += rng.uniform(-L['amp'], L['amp'])
                    h = max(0.0, h)
                    hs.append(float(round(h)) if integer else float(h))
            hs.sort()
            if not hs:
                rows.append((names[c], dt, float('nan'), 0))
            elif vv_frac and rng.random() < vv_frac:
                rows.append((names[c], dt, hs[0], -1))
            else:
                for k, h in enumerate(hs):
                    rows.append((names[c], dt, h, k + 1))
    return rows


def flat_rows(spec, n_steps, names=('0',), step=15.0, t_end=0.0):
    """Deterministic integer-valued scene: spec = list of (height, count) per ceilometer meaning the first
    `count` time steps of every ceilometer carry a hit at `height` (layers stack as types 1, 2, ...)."""
    rows = []
    for c in names:
        for s in range(n_steps):
            dt = t_end - (n_steps - s) * step
            hs = sorted(float(h) for (h, cnt) in spec if s < cnt)
            if not hs:
                rows.append((c, dt, float('nan'), 0))
            else:
                for k, h in enumerate(hs):
                    rows.append((c, dt, h, k + 1))
    return rows


def random_prms(rng, rows):
    """A per-call parameter dictionary inside the documented domain, tuned to hit the branches."""
    hs = sorted(h for _, _, h, _ in rows if not math.isnan(h))
    p = {}
    r = rng.random()
    if hs and r < 0.6:
        ref = rng.choice(hs)
        p['MSA'] = rng.choice([ref, ref + 1, ref - 1, float(np.nextafter(ref, np.inf)), ref + 250.0, 0,
                               int(hs[-1]) + 5000, int(hs[0]) // 2])
    elif r < 0.7:
        p['MSA'] = rng.choice([0, 1000, 5000, 12000])
    if rng.random() < 0.6:
        p['MSA_HIT_BUFFER'] = rng.choice([0, 100, 500, 1500])
    if rng.random() < 0.6:
        p['MAX_HITS_OKTA0'] = rng.choice([0, 1, 2, 3, 5])
    if rng.random() < 0.6:
        p['MAX_HOLES_OKTA8'] = rng.choice([0, 1, 2, 4])
    if rng.random() < 0.5:
        p['BASE_LVL_HEIGHT_PERC'] = rng.choice([0, 5, 10, 50, 95, 100, rng.randint(0, 100), 0.9, 12.5, 99.5])
    if rng.random() < 0.4:
        p['BASE_LVL_LOOKBACK_PERC'] = rng.choice([100, 10, 25, 40, 70, 1, rng.randint(1, 100), 12.5, 33.3, 99.9])
    names = sorted({c for c, _, _, _ in rows})
    if rng.random() < 0.3 and names:
        k = rng.randint(1, len(names))
        ex = rng.sample(names, k)
        if rng.random() < 0.2:
            ex.append('not-a-ceilometer')
        p['EXCLUDE_FOR_BASE_HEIGHT_CALC'] = ex
    if rng.random() < 0.3:
        v1 = rng.choice([50, 100, 250, 400])
        if rng.random() < 0.5:
            p['MIN_SEP_VALS'] = [v1, rng.choice([500, 1000, 2000])]
            p['MIN_SEP_LIMS'] = [rng.choice([1000, 5000, 10000])]
        else:
            p['MIN_SEP_VALS'] = [v1, v1 * 2, v1 * 4]
            p['MIN_SEP_LIMS'] = [2000, 8000]
    if rng.random() < 0.15:
        p['LAYERING_PRMS'] = {'min_okta_to_split': rng.choice([0, 1, 2, 5])}
    if rng.random() < 0.1:
        p['SLICING_PRMS'] = {'distance_threshold': rng.choice([0.05, 0.1, 0.2, 0.4])}
    if rng.random() < 0.1:
        p['LOWESS'] = {'frac': rng.choice([0.2, 0.35, 0.6, 1.0]), 'it': rng.choice([0, 1, 3])}
    if rng.random() < 0.12:
        # the minimum range of the height scaling, 0 (= no minimum range, the scaler's own default) included
        p.setdefault('SLICING_PRMS', {})['height_scale_kwargs'] = {'min_range': rng.choice([0, 0, 1, 50, 1000, 20000])}
    return p


def float_typed(prms, rng):
    """The same parameter values written as floats where the documentation writes integers (250 -> 250.0): the value
    is what counts."""
    def conv(v):
        if isinstance(v, bool) or v is None or isinstance(v, str):
            return v
        if isinstance(v, int):
            return float(v)
        if isinstance(v, dict):
            return {k: conv(x) for k, x in v.items()}
        if isinstance(v, list):
            return [conv(x) for x in v]
        return v
    keep_int = ('LOWESS',)                      # `it` is an iteration count: statsmodels wants an int there
    return {k: (conv(v) if (k not in keep_int and rng.random() < 0.8) else v) for k, v in prms.items()}


def numpy_typed(prms, rng):
    """The same parameter values as NumPy scalars (values read from arrays / data frames are of these types):
    np.int64 / np.int32 / np.int16 for integers, np.float64 for floats."""
    def conv(v):
        if isinstance(v, bool) or v is None or isinstance(v, str):
            return v
        if isinstance(v, int):
            return rng.choice([np.int64, np.int32, np.int16 if abs(v) < 10000 else np.int64])(v)
        if isinstance(v, float):
            # binary64 only: a float32 scalar demotes whatever Python float it is added to (NumPy's promotion rules), so that
            # e.g. MSA + buffer would be rounded to single precision - a property of NumPy's casting, which the exact model
            # cannot and need not follow (false alarm of thorough sweep #4, DESIGN 11.16)
            rng.random()
            return np.float64(v)
        if isinstance(v, dict):
            return {k: conv(x) for k, x in v.items()}
        if isinstance(v, list):
            return [conv(x) if not isinstance(x, str) else x for x in v]
        return v
    out = {k: (conv(v) if rng.random() < 0.7 else v) for k, v in prms.items()}
    # the container of the separation tables: a tuple (an immutable constant in the caller's code) holds the same limits
    for key in ('MIN_SEP_LIMS', 'MIN_SEP_VALS'):
        if rng.random() < 0.5:
            from . import common as _c
            val = out.get(key, _c.packaged_defaults()[key])
            if isinstance(val, list):
                out[key] = tuple(val)
    return out


def frame_variant(rng, rows):
    """An accepted spelling of the same table that the checker has to normalise: ceilometer ids that are not str
    (ints), other dtypes for the numeric columns, an extra column, another column order.  Returns (frame, rows as the
    package will see them after normalisation, tag)."""
    how = rng.choice(['int_ceilo', 'int_ceilo', 'obj_ceilo', 'float_type', 'int8_type', 'extra_col', 'col_perm', 'object_all',
                      'objint_ceilo', 'objint_ceilo', 'extra_col_unhashable', 'float32_cols', 'float32_cols', 'index_named',
                      'index_named', 'dup_extra_cols'])
    if how in ('int_ceilo', 'objint_ceilo'):
        names = sorted({r[0] for r in rows})
        m = {c: i + 1 for i, c in enumerate(names)}
        rows2 = [(str(m[c]), dt, h, t) for c, dt, h, t in rows]
        df = make_frame(rows2)
        if how == 'int_ceilo':
            df['ceilo'] = np.array([m[c] for c, *_ in rows], dtype='int64')
        else:
            # an object column holding Python ints (or ints and strs mixed, as after concatenating per-instrument tables)
            mixed = rng.random() < 0.5
            df['ceilo'] = pd.Series([(m[c] if not (mixed and m[c] % 2 == 0) else str(m[c])) for c, *_ in rows], dtype=object)
        return df, rows2, how, {c: str(i) for c, i in m.items()}
    if how == 'float32_cols':
        # heights and time stamps held in float32 columns (the values are made float32-representable first, so that the
        # table means the same in any precision; the checker casts to float64)
        rows = [(c, float(np.float32(dt)), (float(np.float32(h)) if h == h else h), t) for c, dt, h, t in rows]
        df = make_frame(rows)
        df['height'] = df['height'].astype('float32')
        if rng.random() < 0.5:
            df['dt'] = df['dt'].astype('float32')
        return df, rows, how, None
    df = make_frame(rows)
    if how == 'index_named':
        # the table indexed by one of its own columns (set_index(..., drop=False)): an index level named like a column
        df = df.set_index(rng.choice(['dt', 'ceilo', 'height', 'type']), drop=False)
    elif how == 'dup_extra_cols':
        df['station'] = 'LSZH'
        df = pd.concat([df, df[['station']]], axis=1)
    if how == 'obj_ceilo':
        df['ceilo'] = df['ceilo'].astype(object)
    elif how == 'float_type':
        df['type'] = df['type'].astype(float)
    elif how == 'int8_type':
        df['type'] = df['type'].astype('int8')
    elif how == 'extra_col':
        df.insert(rng.randrange(len(df.columns) + 1), 'station', 'LSZH')
    elif how == 'extra_col_unhashable':
        # a superfluous column (dropped with a warning) whose cells are lists / dicts (flags from a JSON feed)
        df['flags'] = [rng.choice([[], [1, 2], {'q': 1}]) for _ in range(len(df))]
    elif how == 'col_perm':
        cols = list(df.columns); rng.shuffle(cols); df = df[cols]
    elif how == 'object_all':
        df = df.astype(object)
    return df, rows, how, None


def _same_tree(a, b):
    """Equality of parameter trees by value (NumPy scalars equal to the Python numbers of the same value)."""
    if isinstance(a, dict) or isinstance(b, dict):
        return isinstance(a, dict) and isinstance(b, dict) and set(a) == set(b) and all(_same_tree(a[k], b[k]) for k in a)
    if isinstance(a, (list, tuple)) or isinstance(b, (list, tuple)):
        return isinstance(a, (list, tuple)) and isinstance(b, (list, tuple)) and len(a) == len(b) \
            and all(_same_tree(x, y) for x, y in zip(a, b))
    if a is None or b is None:
        return a is None and b is None
    try:
        return bool(a == b)
    except Exception:
        return False


class Replace(dict):
    """A dictionary value that replaces the one in place instead of being merged into it (switching the height scaling
    of the slicing to another mode means new keyword arguments, not additional ones) - only meaningful on the global
    route, where the user edits dynamic.AMPYCLOUD_PRMS directly."""


def _nested_update(ref, new):
    for k, v in new.items():
        if isinstance(v, Replace):
            ref[k] = dict(v)
        elif isinstance(v, dict) and isinstance(ref.get(k), dict):
            _nested_update(ref[k], v)
        else:
            ref[k] = v


POISON = {'MSA': 1, 'MSA_HIT_BUFFER': 0, 'MAX_HITS_OKTA0': 10 ** 6, 'MAX_HOLES_OKTA8': 10 ** 6, 'BASE_LVL_HEIGHT_PERC': 100,
          'BASE_LVL_LOOKBACK_PERC': 1, 'MIN_SEP_VALS': [0, 0], 'MIN_SEP_LIMS': [1], 'EXCLUDE_FOR_BASE_HEIGHT_CALC': ['poison']}


def poison_global(g):
    """In-place edits of the dictionary that was the global at construction time (and of its nested dictionaries)."""
    for k, v in POISON.items():
        if k in g:
            g[k] = v
    for sec, leaf, val in (('SLICING_PRMS', 'distance_threshold', 1e-6), ('GROUPING_PRMS', 'height_pad_perc', 10 ** 4),
                           ('LAYERING_PRMS', 'min_okta_to_split', 9), ('LOWESS', 'frac', 1.0)):
        if isinstance(g.get(sec), dict):
            g[sec][leaf] = val
    for sec in ('SLICING_PRMS', 'GROUPING_PRMS'):
        if isinstance(g.get(sec), dict) and isinstance(g[sec].get('height_scale_kwargs'), dict):
            g[sec]['height_scale_kwargs']['min_range'] = 10 ** 7
    if isinstance(g.get('LAYERING_PRMS'), dict) and isinstance(g['LAYERING_PRMS'].get('gmm_kwargs'), dict):
        g['LAYERING_PRMS']['gmm_kwargs']['delta_mul_gain'] = 0.0


# --------------------------------------------------------------------------------------------
# running the real code
# --------------------------------------------------------------------------------------------
def _exc_name(e):
    from ampycloud.errors import AmpycloudError
    return 'AmpycloudError' if isinstance(e, AmpycloudError) else f'other:{type(e).__name__}'


def tok(name) -> str:
    """Protocol token of a ceilometer name (hex of UTF-8, never empty)."""
    return 'x' + str(name).encode('utf-8').hex()


def table_rows(tbl):
    """Rows of a slices/groups/layers frame as protocol tokens."""
    out = []
    for i in range(len(tbl)):
        r = tbl.iloc[i]
        iso = '-'
        if 'isolated' in tbl.columns:
            v = r['isolated']
            iso = '-' if v is None or (isinstance(v, float) and math.isnan(v)) else ('T' if bool(v) else 'F')
        nc = '-'
        if 'ncomp' in tbl.columns:
            nc = str(int(r['ncomp']))
        out.append(' '.join([
            str(int(r['n_hits'])), common.frac(r['perc']), str(int(r['okta'])), common.frac(r['height_base']),
            common.frac(r['height_mean']), common.frac(r['height_std']), common.frac(r['height_min']),
            common.frac(r['height_max']), common.frac(r['thickness']), common.frac(r['fluffiness']),
            str(r['code']) if str(r['code']) else '-', 'T' if bool(r['significant']) else 'F',
            str(int(r['cluster_id'])), iso, nc]))
    return out


def snapshot(chunk, which):
    """Everything observable about one level right after its stage."""
    col = which[:-1] + '_id'
    tbl = getattr(chunk, which)
    return {
        'ids': [int(v) for v in chunk.data[col]],
        'table': table_rows(tbl),
        'n': int(getattr(chunk, 'n_' + which)),
        'msg': chunk.metar_msg(which),
        'columns': list(tbl.columns),
        'dtypes': [str(d) for d in tbl.dtypes],
    }


def data_rows(df):
    return [(str(c), float(dt), float(h), int(t)) for c, dt, h, t in
            zip(df['ceilo'], df['dt'], df['height'], df['type'])]


def run_scene(rows, prms, index=None, stages=('slices', 'groups', 'layers'), frame=None, debug_log=None, chunk_kwargs=None,
              route='stepwise', kernel_fuzz=None, plot_excursion=False):
    """Execute the real pipeline on one scene under recording.  Returns the observation dict.
    One scene in four (chosen from the scene itself) runs with the package's loggers at DEBUG."""
    common.import_ampycloud()
    from ampycloud.data import CeiloChunk
    obs = {'rows': rows, 'prms': prms, 'exc': None, 'stage': 'init', 'levels': {}, 'warnings': [], 'route': route, 'kernel_fuzz': kernel_fuzz}
    df = frame if frame is not None else make_frame(rows, index)
    if debug_log is None:
        debug_log = common.ambient_debug_for((len(rows), rows[:2], sorted((prms or {}).items(), key=str)))
    obs['debug_log'] = bool(debug_log)
    with common.debug_logging(debug_log), record.recording(fuzz=kernel_fuzz) as tr, warnings.catch_warnings(record=True) as wl:
        warnings.simplefilter('always')
        try:
            from ampycloud import dynamic as _dyn
            expected_eff = copy.deepcopy(_dyn.AMPYCLOUD_PRMS)
            _nested_update(expected_eff, copy.deepcopy(prms or {}))
            if route == 'run':
                # the package's own entry point (construction + the three stages in one call)
                import ampycloud
                obs['stage'] = 'run'
                chunk = ampycloud.run(df, prms=copy.deepcopy(prms), **(chunk_kwargs or {}))
            elif route == 'full_over_poisoned':
                # every leaf given per call (None, 0, empty lists included) over a global whose result-relevant leaves
                # are all poisoned: a per-call value, whatever it is, overrides the global
                from ampycloud import dynamic
                saved_global = dynamic.AMPYCLOUD_PRMS
                g = common.packaged_defaults()
                poison_global(g)
                full = common.packaged_defaults()
                _nested_update(full, copy.deepcopy(prms))
                expected_eff = copy.deepcopy(full)
                dynamic.AMPYCLOUD_PRMS = g
                try:
                    chunk = CeiloChunk(df, prms=full, **(chunk_kwargs or {}))
                finally:
                    dynamic.AMPYCLOUD_PRMS = saved_global
            elif route == 'global':
                # the documented global route: the scene's parameters are set in dynamic.AMPYCLOUD_PRMS, the chunk is
                # built without per-call parameters, and then *the dictionary that was the global at construction is
                # edited in place* (every result-relevant leaf set to a value that changes the outcome): the chunk
                # works with the values it was constructed with
                from ampycloud import dynamic
                saved_global = dynamic.AMPYCLOUD_PRMS
                g = common.packaged_defaults()
                _nested_update(g, copy.deepcopy(prms))
                expected_eff = copy.deepcopy(g)
                dynamic.AMPYCLOUD_PRMS = g
                try:
                    chunk = CeiloChunk(df, **(chunk_kwargs or {}))
                    poison_global(g)
                finally:
                    dynamic.AMPYCLOUD_PRMS = saved_global
            else:
                chunk = CeiloChunk(df, prms=copy.deepcopy(prms), **(chunk_kwargs or {}))
            obs['data'] = data_rows(chunk.data)
            obs['labels_unique'] = bool(chunk.data.index.is_unique)
            obs['flag'] = bool(chunk.clouds_above_msa_buffer)
            # the parameters the model works with are the ones that were *requested* (computed here, independently of
            # the package: the global as it was when the chunk was built, updated with the per-call values) - not the ones
            # read back from the chunk, which are compared with them
            obs['eff'] = expected_eff
            try:
                obs['eff_mismatch'] = None if _same_tree(chunk.prms, expected_eff) else \
                    [k_ for k_ in expected_eff if not _same_tree(chunk.prms.get(k_), expected_eff[k_])][:4] or ['key set']
            except Exception as e_:          # an odd parameter object: leave the judgement to the other observables
                obs['eff_mismatch'] = None
            for st in stages:
                if route != 'run':
                    obs['stage'] = st
                    getattr(chunk, 'find_' + st)()
                obs['levels'][st] = snapshot(chunk, st)
            # queries are queries: after the messages and tables were read, the flag, the parameters and every table are what
            # they were (the chunk is only changed by its stage methods)
            ref = {st: snapshot(chunk, st) for st in stages}          # state after the last stage (snapshot = queries)
            if plot_excursion:
                # a diagnostic plot in between (not shown, not saved): another read-only use of the chunk
                import matplotlib
                matplotlib.use('Agg')
                import matplotlib.pyplot as plt
                from ampycloud.plots import diagnostic
                try:
                    diagnostic(chunk, upto='layers', show=False, save_stem=None)
                except Exception:          # what the plot itself does is C20's business
                    pass
                finally:
                    plt.close('all')
            again = {st: snapshot(chunk, st) for st in reversed(stages)}
            impure = [st for st in stages if again[st] != ref[st]]
            if ref[stages[-1]] != obs['levels'][stages[-1]]:
                impure.append(stages[-1] + ' (first read)')
            if bool(chunk.clouds_above_msa_buffer) != obs['flag']:
                impure.append('clouds_above_msa_buffer')
            if not _same_tree(chunk.prms, expected_eff) and not obs.get('eff_mismatch'):
                impure.append('prms')
            obs['impure_queries'] = impure or None
            obs['stage'] = 'done'
            obs['chunk'] = chunk
        except Exception as e:  # classified by the caller
            obs['exc'] = _exc_name(e)
            obs['exc_msg'] = str(e)[:300]
    obs['trace'] = tr
    obs['warnings'] = [(w.category.__name__, str(w.message)[:120]) for w in wl]
    return obs


# --------------------------------------------------------------------------------------------
# protocol: the table-level request
# --------------------------------------------------------------------------------------------
def _dedupe(recs, key):
    seen, out = set(), []
    for r in recs:
        k = key(r)
        if k not in seen:
            seen.add(k)
            out.append(r)
    return out


def prm_section(eff, flag):
    msa = eff.get('MSA')
    ex = eff.get('EXCLUDE_FOR_BASE_HEIGHT_CALC') or []
    if isinstance(ex, str):
        ex = [ex]
    # The crop limit is a binary64 *sum* in the code (`self.msa + self.msa_hit_buffer`): a checked-oracle float
    # operation.  The model adds exactly, so it is handed the buffer that makes its exact sum equal to the float
    # limit the code compares the heights with (identical whenever the sum is exact, e.g. for integer settings).
    buf = eff['MSA_HIT_BUFFER']
    if msa is not None:
        try:
            buf = Fraction(msa + buf) - Fraction(msa)
        except (TypeError, ValueError, OverflowError):
            pass
    return ('PRM msa={} buf={} t0={} t8={} q={} lb={} flag={} excl={}'.format(
        'nan' if msa is None else common.frac(msa), common.frac(buf),
        common.frac(eff['MAX_HITS_OKTA0']), common.frac(eff['MAX_HOLES_OKTA8']),
        common.frac(eff['BASE_LVL_HEIGHT_PERC']), common.frac(eff['BASE_LVL_LOOKBACK_PERC']),
        'T' if flag else 'F', ','.join(tok(c) for c in ex)))


def data_section(data):
    return 'DATA ' + ' ; '.join(f'{tok(c)} {common.frac(dt)} {common.frac(h)} {t}' for c, dt, h, t in data)


def kernel_sections(obs):
    tr = obs['trace']
    dts = np.array([r[1] for r in obs['data']], dtype=float)
    dtord = None
    for s in tr.sorts:
        if s['by'] == 'dt' and s['perm'] is not None and len(s['keys']) == len(dts) and np.array_equal(s['keys'], dts):
            dtord = s['perm']
    if dtord is None and len(dts):
        # no `sort_values('dt')` of the whole frame was observed (the unchanged code always makes one when it builds a
        # table): the model is then given the stable time order, so that the property's own clauses (base = configured
        # percentile of the most recent members, ...) are still evaluated on what the implementation reports
        dtord = [int(i) for i in np.argsort(dts, kind='stable')]
    secs = ['DTORD ' + (' '.join(map(str, dtord)) if dtord is not None else '')]
    pc = _dedupe(tr.percentile, lambda r: (float(r['q']), r['vals'].tobytes()))
    secs.append('PCTL ' + ' ; '.join(
        f"{common.frac(r['q'])} {common.frac(float(r['res']))} " + ' '.join(common.frac(v) for v in r['vals'])
        for r in pc if not np.isnan(r['vals']).any() and not math.isnan(float(r['res']))))
    fl = _dedupe([r for r in tr.fluff if r.get('perm') is not None and r.get('smooth') is not None
                  and r['pts'].ndim == 2 and not np.isnan(r['pts']).any() and not np.isnan(r['smooth']).any()],
                 lambda r: r['pts'].tobytes())
    secs.append('FLUFF ' + ' ; '.join(
        f"{common.frac(r['value'])} {len(r['pts'])} "
        + ' '.join(f'{common.frac(x)} {common.frac(y)}' for x, y in r['pts'])
        + ' ' + ' '.join(map(str, r['perm'])) + ' ' + ' '.join(common.frac(v) for v in r['smooth'])
        for r in fl))
    bo = _dedupe([s for s in tr.sorts if s['by'] == 'height_base' and s['perm'] is not None
                  and s.get('dtype') != 'object' and not np.isnan(s['keys']).any()], lambda s: s['keys'].tobytes())
    secs.append('BORD ' + ' ; '.join(
        f"{len(s['keys'])} " + ' '.join(common.frac(v) for v in s['keys']) + ' ' + ' '.join(map(str, s['perm']))
        for s in bo))
    return secs


def met_request(obs, which):
    lv = obs['levels'][which]
    head = f"MET which={which} layersDone=F nw={lv['n']}"
    secs = [head, prm_section(obs['eff'], obs['flag']), data_section(obs['data']),
            'IDS ' + ' '.join(map(str, lv['ids']))] + kernel_sections(obs) + [
        'TABLE ' + ' ; '.join(lv['table']), 'MSG ' + lv['msg']]
    return ' | '.join(secs)


def _hmode(eff):
    sp = eff['SLICING_PRMS']
    mode = sp.get('height_scale_mode')
    kw = sp.get('height_scale_kwargs') or {}
    if mode == 'minmax-scale':
        if 'min_val' in kw and 'max_val' in kw:
            return None
        return 'minmax:' + common.frac(kw.get('min_range', 0))
    if mode == 'shift-and-scale':
        sh = kw.get('shift')
        return 'shift:{}:{}'.format('nan' if sh is None else common.frac(sh), common.frac(kw.get('scale', 1)))
    if mode == 'step-scale':
        return 'step:{}:{}'.format(','.join(common.frac(v) for v in kw['steps']), ','.join(common.frac(v) for v in kw['scales']))
    if mode is None:
        return 'none'
    return None


def prm_section_full(eff, flag):
    """PRM section with every leaf the cascade reads; None if some leaf is outside the modelled domain."""
    base = prm_section(eff, flag)
    hm = _hmode(eff)
    if hm is None:
        return None
    g, l = eff['GROUPING_PRMS'], eff['LAYERING_PRMS']
    kw = l['gmm_kwargs']
    rng_ = g['height_scale_range']
    extra = ' sep_vals={} sep_lims={} thr={} sdt={} hmode={} pad={} gdt={} hlo={} hhi={} split={} scores={} mode={} minprob={} gain={} rescale={}'.format(
        ','.join(common.frac(v) for v in eff['MIN_SEP_VALS']), ','.join(common.frac(v) for v in eff['MIN_SEP_LIMS']),
        common.frac(eff['SLICING_PRMS']['distance_threshold']), common.frac(eff['SLICING_PRMS']['dt_scale']), hm,
        common.frac(g['height_pad_perc']), common.frac(g['dt_scale']), common.frac(min(rng_)), common.frac(max(rng_)),
        common.frac(l['min_okta_to_split']), kw.get('scores', 'BIC'), kw.get('mode', 'delta'),
        common.frac(kw.get('min_prob', 1.0)), common.frac(kw.get('delta_mul_gain', 1.0)),
        'nan' if kw.get('rescale_0_to_x') is None else common.frac(kw['rescale_0_to_x']))
    return base + extra


def extra_kernel_sections(tr):
    """CLUST / GMM / BPROB / ASORT / PORD sections from a trace."""
    secs = []
    cl = [c for c in tr.cluster if 'labels' in c]
    secs.append('CLUST ' + ' ; '.join(
        f"{c['kwargs'].get('linkage')} {common.frac(c['kwargs'].get('distance_threshold'))} {len(c['pts'])} "
        + ' '.join(f'{common.frac(x)} {common.frac(y)}' for x, y in c['pts']) + ' ' + ' '.join(str(int(v)) for v in c['labels'])
        for c in cl))
    gm = []
    for g in tr.gmm:
        sc = g['kwargs'].get('scores', 'BIC')
        for k, f in sorted(g['fits'].items()):
            if 'labels' in f and 'score' in f and 'vals' in f:
                gm.append(f"{sc} {k} {len(f['vals'])} " + ' '.join(common.frac(v) for v in f['vals']) + ' '
                          + ' '.join(str(int(v)) for v in f['labels']) + ' ' + common.frac(f['score']))
    secs.append('GMM ' + ' ; '.join(gm))
    secs.append('BPROB ' + ' ; '.join(
        f"{common.frac(b['kwargs'].get('min_prob', 1.0))} {b['out']} " + ' '.join(common.frac(v) for v in b['abics'])
        for b in tr.best_gmm if b['kwargs'].get('mode') == 'prob'))
    secs.append('ASORT ' + ' ; '.join(
        f"{len(a['vals'])} " + ' '.join(common.frac(v) for v in a['vals']) + ' ' + ' '.join(map(str, a['perm']))
        for a in tr.argsort))
    po = _dedupe([s for s in tr.sorts if s['by'] == 'height_base' and s['perm'] is not None
                  and s.get('dtype') == 'object' and not np.isnan(s['keys']).any()], lambda s: s['keys'].tobytes())
    secs.append('PORD ' + ' ; '.join(
        f"{len(s['keys'])} " + ' '.join(common.frac(v) for v in s['keys']) + ' ' + ' '.join(map(str, s['perm']))
        for s in po))
    return secs


def run_request(obs):
    """The end-to-end request for a scene that ran to completion (all three stages)."""
    prm = prm_section_full(obs['eff'], obs['flag'])
    if prm is None:
        return None
    tr = obs['trace']
    chunk = obs['chunk']
    secs = ['RUN', prm,
            'ROWS ' + ' ; '.join(f'{tok(c)} {common.frac(dt)} {common.frac(h)} {t}' for c, dt, h, t in obs['rows'])]
    secs += kernel_sections(obs)
    secs += extra_kernel_sections(tr)
    secs.append(data_section(obs['data']))
    secs.append('FLAG ' + ('T' if obs['flag'] else 'F'))
    secs.append('SIDS ' + ' '.join(str(int(v)) for v in chunk.data['slice_id']))
    secs.append('GIDS ' + ' '.join(str(int(v)) for v in chunk.data['group_id']))
    secs.append('LIDS ' + ' '.join(str(int(v)) for v in chunk.data['layer_id']))
    secs.append('TSLICES ' + ' ; '.join(table_rows(chunk.slices)))
    secs.append('TGROUPS ' + ' ; '.join(table_rows(chunk.groups)))
    secs.append('TLAYERS ' + ' ; '.join(table_rows(chunk.layers)))
    secs.append(f'NW {chunk.n_slices} {chunk.n_groups} {chunk.n_layers}')
    secs.append('MSGS ' + ' / '.join(chunk.metar_msg(w) for w in ('slices', 'groups', 'layers')))
    return ' | '.join(secs)


def parse_run_answer(ans):
    """NE findings of a scene in which the driver found a float near-tie (a decision the implementation takes in
    binary64 and the model in exact rationals, too close to call) are moved to 'near_tie' and not counted."""
    out = {'ne': [], 'spec': [], 'bad': False, 'near_tie': []}
    if not ans.startswith('RUN'):
        out['bad'] = True
        return out
    body = ans[3:].strip()
    if body == 'ok':
        return out
    if body.startswith('bad-request'):
        out['bad'] = True
        return out
    for f in body.split('; '):
        if f.startswith('NE '):
            out['ne'].append(f[3:])
        elif f.startswith('SPEC '):
            out['spec'].append(f[5:])
        elif f.startswith('NOTE float-near-tie'):
            out['near_tie'].append(f[20:])
        else:
            out['ne'].append('unparsed:' + f)
    if out['near_tie']:
        out['near_tie'] += out['ne']
        out['ne'] = []
    return out


def parse_met_answer(ans):
    """-> dict(ne=[...], spec=[...], kernel=[...], arg=[...], bad=bool)"""
    out = {'ne': [], 'spec': [], 'kernel': [], 'arg': [], 'bad': False}
    if not ans.startswith('MET'):
        out['bad'] = True
        return out
    body = ans[3:].strip()
    if body == 'ok':
        return out
    if body.startswith('bad-request'):
        out['bad'] = True
        return out
    for f in body.split('; '):
        if f.startswith('NE '):
            out['ne'].append(f[3:])
        elif f.startswith('SPEC '):
            out['spec'].append(f[5:])
        elif f.startswith('KERNEL '):
            out['kernel'].append(f[7:])
        elif f.startswith('ARG '):
            out['arg'].append(f[4:])
        else:
            out['ne'].append('unparsed:' + f)
    return out


def scene_stats(obs):
    """Branch facts for the evidence histogram."""
    st = {}
    if obs.get('debug_log'):
        st['ambient_debug_logging'] = 1
    if obs.get('exc'):
        st['exception_' + obs['exc']] = 1
        return st
    for w, lv in obs['levels'].items():
        st[f'n_{w}={min(lv["n"], 6)}{"+" if lv["n"] > 6 else ""}'] = 1
    if obs['flag']:
        st['high_cloud_flag'] = 1
    if obs['eff'].get('MSA') is not None:
        st['msa_set'] = 1
    if len(obs['data']) != len(obs['rows']):
        st['rows_cropped'] = 1
    if obs['eff'].get('EXCLUDE_FOR_BASE_HEIGHT_CALC'):
        st['exclusion_set'] = 1
    if any('fall back' in m for _, m in obs['warnings']):
        st['exclusion_fallback'] = 1
    if obs['trace'].gmm:
        st['gmm_engaged'] = 1
        if any(g.get('ncomp', 1) > 1 for g in obs['trace'].gmm):
            st['group_split'] = 1
    if len([c for c in obs['trace'].cluster if c.get('kwargs', {}).get('linkage') == 'single']):
        st['bundle_clustered'] = 1
    lay = obs['levels'].get('layers')
    if lay:
        st['msg_' + (lay['msg'] if lay['msg'] in ('NCD', 'NSC') else f"{len(lay['msg'].split())}groups")] = 1
    return st
