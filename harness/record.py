"""Run-time wrappers around the third-party kernels ampycloud calls (DESIGN.md §4.2).

Nothing in /repo is edited: the wrappers are installed from outside for the duration of one
`recording()` block and removed in a `finally`.  Each wrapper calls the original and appends what it
was given and what it answered to the active trace.
"""
from __future__ import annotations

import contextlib
import types

import numpy as np
import pandas as pd


class Trace:
    def __init__(self):
        self.cluster = []      # dicts: pts (n x 2 array), kwargs, nlabels, labels
        self.percentile = []   # dicts: vals (1-D array), q, res
        self.lowess = []       # dicts: ys, xs (jittered), kwargs, out (n x 2)
        self.fluff = []        # dicts: pts (as passed to get_fluffiness), value, smooth (sorted), perm
        self.sorts = []        # dicts: by, keys (array), perm (positions) or None
        self.gmm = []          # dicts per ncomp_from_gmm call
        self.best_gmm = []     # dicts: abics, kwargs, out
        self.argsort = []      # dicts: vals, perm (np.argsort inside layer.py)
        self.missing = []      # wrapper targets that could not be installed


_ACTIVE: list[Trace] = []


def _tr():
    return _ACTIVE[-1] if _ACTIVE else None


class _NpProxy(types.ModuleType):
    """Stands in for `numpy` inside ampycloud.utils.utils: only `percentile` is intercepted."""

    def __init__(self):
        super().__init__('numpy_proxy')

    def __getattr__(self, name):
        return getattr(np, name)

    @staticmethod
    def percentile(a, q, *args, **kwargs):
        res = np.percentile(a, q, *args, **kwargs)
        t = _tr()
        if t is not None:
            t.percentile.append({'vals': np.array(a, dtype=float).ravel().copy(), 'q': q, 'res': res})
        return res


class _NpLayerProxy(types.ModuleType):
    """Stands in for `numpy` inside ampycloud.layer: only `argsort` is intercepted."""

    def __init__(self):
        super().__init__('numpy_proxy_layer')

    def __getattr__(self, name):
        return getattr(np, name)

    @staticmethod
    def argsort(a, *args, **kwargs):
        res = np.argsort(a, *args, **kwargs)
        t = _tr()
        if t is not None:
            t.argsort.append({'vals': np.array(a, dtype=float).ravel().copy(), 'perm': [int(i) for i in np.ravel(res)]})
        return res


class _SmProxy:
    """Stands in for `statsmodels.api` inside ampycloud.fluffer."""

    def __init__(self, sm):
        self._sm = sm
        self.nonparametric = types.SimpleNamespace(lowess=self._lowess)

    def __getattr__(self, name):
        return getattr(self._sm, name)

    def _lowess(self, endog, exog, **kwargs):
        out = self._sm.nonparametric.lowess(endog, exog, **kwargs)
        t = _tr()
        if t is not None:
            t.lowess.append({'ys': np.array(endog, dtype=float).copy(), 'xs': np.array(exog, dtype=float).copy(),
                             'kwargs': dict(kwargs), 'out': np.array(out, dtype=float).copy()})
        return out


def _match_perm(pts, ys, xs):
    """Positions p with pts[p] == sorted points handed to LOWESS (x possibly jittered upwards)."""
    n = len(pts)
    used = [False] * n
    perm = []
    tol = (n + 2) * 1e-5 + 1e-9
    for j in range(n):
        best = None
        for i in range(n):
            if used[i] or pts[i, 1] != ys[j]:
                continue
            d = xs[j] - pts[i, 0]
            if -1e-9 <= d <= tol and (best is None or d < best[0]):
                best = (d, i)
        if best is None:
            return None
        used[best[1]] = True
        perm.append(best[1])
    return perm


@contextlib.contextmanager
def recording(fuzz=None):
    """Install the wrappers, yield a Trace, restore everything.

    `fuzz` (a seed, or None): the model's theorems are quantified over *every* answer of the right shape the
    third-party kernels could give, not only over what scikit-learn happens to return on the generated scenes.  With a
    seed, the Gaussian-mixture wrapper deterministically distorts the real answers within that shape (labels < n with
    a component left unpopulated or components renumbered, scores rescaled): the package's bookkeeping around the
    mixture (empty-component penalty, model selection, re-merge, id generation) is then exercised - and compared with
    the model, which replays the recorded (distorted) answers - in regimes the real library produces once in a
    thousand scenes."""
    import ampycloud
    from ampycloud import cluster, fluffer, layer
    from ampycloud.utils import utils

    t = Trace()
    saved = []
    fuzz_cluster = isinstance(fuzz, str) and fuzz.endswith('+cluster')

    def patch(obj, name, new):
        if not hasattr(obj, name):
            t.missing.append(f'{getattr(obj, "__name__", obj)}.{name}')
            return
        saved.append((obj, name, getattr(obj, name)))
        setattr(obj, name, new)

    # --- clustering ---------------------------------------------------------------------------
    orig_clusterize = getattr(cluster, 'clusterize', None)

    def clusterize(data, algo=None, **kwargs):
        try:
            out = orig_clusterize(data, algo=algo, **kwargs)
        except Exception as e:
            t.cluster.append({'pts': np.array(data, dtype=float).copy(), 'kwargs': dict(kwargs), 'algo': algo,
                              'error': type(e).__name__})
            raise
        rec = {'pts': np.array(data, dtype=float).copy(), 'kwargs': dict(kwargs), 'algo': algo}
        if out is not None and fuzz is not None and fuzz_cluster and len(out[1]) >= 2:
            # a distorted but well-shaped answer: one label per point, labels 0..k-1, k reported
            import hashlib
            import random as _r
            r = _r.Random(hashlib.sha1(rec['pts'].tobytes() + f'{fuzz}:cluster'.encode()).hexdigest())
            lab = np.array(out[1]).copy()
            k = int(lab.max()) + 1
            mode = r.choice(['permute', 'merge', 'split', 'split', 'asis'])
            if mode == 'merge' and k >= 2:
                a, b = r.sample(range(k), 2)
                lab[lab == b] = a
            elif mode == 'split':
                a = r.randrange(k)
                idx = [i for i in range(len(lab)) if lab[i] == a]
                if len(idx) >= 2:
                    for i in r.sample(idx, r.randint(1, len(idx) - 1)):
                        lab[i] = k
            # contiguous labels in a random numbering
            olds = sorted(set(int(v) for v in lab))
            news = list(range(len(olds))); r.shuffle(news)
            m = dict(zip(olds, news))
            lab = np.array([m[int(v)] for v in lab], dtype=np.array(out[1]).dtype)
            out = (len(olds), lab)
        if out is not None:
            rec['nlabels'], rec['labels'] = int(out[0]), np.array(out[1]).copy()
        t.cluster.append(rec)
        return out
    if orig_clusterize is not None:
        patch(cluster, 'clusterize', clusterize)
    else:
        t.missing.append('cluster.clusterize')

    # --- percentile ---------------------------------------------------------------------------
    patch(utils, 'np', _NpProxy())

    # --- lowess + fluffiness ------------------------------------------------------------------
    if hasattr(fluffer, 'sm'):
        patch(fluffer, 'sm', _SmProxy(fluffer.sm))
    else:
        t.missing.append('fluffer.sm')
    orig_fluff = getattr(fluffer, 'get_fluffiness', None)

    def get_fluffiness(pts, **kwargs):
        n0 = len(t.lowess)
        out = orig_fluff(pts, **kwargs)
        rec = {'pts': np.array(pts, dtype=float).copy(), 'value': float(out[0])}
        if len(t.lowess) == n0 + 1:
            lw = t.lowess[-1]
            # the permutation the code applied: the same deterministic call on the same array
            rec['perm'] = [int(i) for i in rec['pts'][:, 0].argsort()]
            if not np.array_equal(rec['pts'][rec['perm'], 1], lw['ys']):
                rec['perm'] = _match_perm(rec['pts'], lw['ys'], lw['xs'])
            rec['smooth'] = lw['out'][:, 1].copy()
            rec['sorted_x'] = lw['xs']
        else:
            rec['perm'] = list(range(len(rec['pts']))) if len(rec['pts']) <= 1 else None
            rec['smooth'] = rec['pts'][:, 1].copy() if len(rec['pts']) <= 1 else None
        t.fluff.append(rec)
        return out
    if orig_fluff is not None:
        patch(fluffer, 'get_fluffiness', get_fluffiness)

    # --- gaussian mixtures --------------------------------------------------------------------
    orig_gm = getattr(layer, 'GaussianMixture', None)
    orig_ncomp = getattr(layer, 'ncomp_from_gmm', None)
    orig_best = getattr(layer, 'best_gmm', None)
    cur = {'rec': None}

    class GM:
        def __init__(self, *args, **kwargs):
            # however the number of components is passed (positionally or as n_components=)
            n = args[0] if args else kwargs.get('n_components', 1)
            self._n = int(n)
            self._kw = {k: v for k, v in kwargs.items() if k != 'n_components'}
            self._m = orig_gm(*args, **kwargs)

        def fit(self, vals):
            self._m.fit(vals)
            if cur['rec'] is not None:
                cur['rec']['fits'].setdefault(self._n, {'kwargs': self._kw, 'vals': np.array(vals, dtype=float).ravel().copy()})
            return self

        def _fz(self, vals, what):
            import hashlib
            import random as _r
            h = hashlib.sha1(np.array(vals, dtype=float).tobytes() + f'{fuzz}:{self._n}:{what}'.encode()).hexdigest()
            return _r.Random(h)

        def predict(self, vals):
            out = self._m.predict(vals)
            if fuzz is not None and self._n >= 2:
                r = self._fz(vals, 'labels')
                mode = r.choice(['empty', 'empty', 'renumber', 'asis'])
                out = np.array(out).copy()
                if mode == 'empty':
                    j = r.randrange(self._n)
                    out[out == j] = (j + 1) % self._n            # component j left unpopulated
                elif mode == 'renumber':
                    perm = list(range(self._n)); r.shuffle(perm)
                    out = np.array([perm[int(v)] for v in out], dtype=out.dtype)
            if cur['rec'] is not None:
                cur['rec']['fits'].setdefault(self._n, {})['labels'] = np.array(out).copy()
            return out

        def _score(self, vals, out):
            if fuzz is not None:
                out = float(out) * self._fz(vals, 'score').choice([1.0, 1.0, 0.5, 1.5, 0.9, -1.0])
            return out

        def bic(self, vals):
            out = self._score(vals, self._m.bic(vals))
            if cur['rec'] is not None:
                cur['rec']['fits'].setdefault(self._n, {})['score'] = float(out)
            return out

        def aic(self, vals):
            out = self._score(vals, self._m.aic(vals))
            if cur['rec'] is not None:
                cur['rec']['fits'].setdefault(self._n, {})['score'] = float(out)
            return out

        def __getattr__(self, name):
            return getattr(self._m, name)

    def ncomp_from_gmm(vals, **kwargs):
        rec = {'vals': np.array(vals, dtype=float).ravel().copy(), 'kwargs': {k: v for k, v in kwargs.items()},
               'fits': {}, 'best': None}
        prev = cur['rec']
        cur['rec'] = rec
        try:
            out = orig_ncomp(vals, **kwargs)
            rec['ncomp'] = int(out[0])
            rec['ids'] = np.array(out[1]).copy()
            rec['abics'] = None if out[2] is None else np.array(out[2], dtype=float).copy()
            return out
        except Exception as e:
            rec['error'] = type(e).__name__
            raise
        finally:
            cur['rec'] = prev
            t.gmm.append(rec)

    def best_gmm(abics, **kwargs):
        out = orig_best(abics, **kwargs)
        r = {'abics': np.array(abics, dtype=float).copy(), 'kwargs': dict(kwargs), 'out': int(out)}
        t.best_gmm.append(r)
        if cur['rec'] is not None:
            cur['rec']['best'] = r
        return out
    if orig_gm is not None:
        patch(layer, 'GaussianMixture', GM)
    else:
        t.missing.append('layer.GaussianMixture')
    if orig_ncomp is not None:
        patch(layer, 'ncomp_from_gmm', ncomp_from_gmm)
    if orig_best is not None:
        patch(layer, 'best_gmm', best_gmm)

    if hasattr(layer, 'np'):
        patch(layer, 'np', _NpLayerProxy())
    else:
        t.missing.append('layer.np')

    # --- sort_values --------------------------------------------------------------------------
    orig_sort = pd.DataFrame.sort_values

    def sort_values(self, by, *args, **kwargs):
        keys = None
        kdtype = None
        try:
            if isinstance(by, str) and by in self.columns:
                kdtype = str(self[by].dtype)
                keys = np.array(self[by], dtype=float).copy()
        except Exception:
            keys = None
        idx_before = self.index
        res = orig_sort(self, by, *args, **kwargs)
        if keys is not None:
            after = self.index if kwargs.get('inplace') else res.index
            perm = None
            try:
                if idx_before.is_unique:
                    perm = [int(p) for p in idx_before.get_indexer(after)]
            except Exception:
                perm = None
            t.sorts.append({'by': by, 'keys': keys, 'perm': perm, 'dtype': kdtype})
        return res
    saved.append((pd.DataFrame, 'sort_values', orig_sort))
    pd.DataFrame.sort_values = sort_values

    _ACTIVE.append(t)
    try:
        yield t
    finally:
        _ACTIVE.pop()
        for obj, name, old in reversed(saved):
            setattr(obj, name, old)
