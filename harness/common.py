"""Shared machinery of the ampycloud verification harness.

Every check (one per property) goes through the same steps (DESIGN.md §4.6):

  1. build the Lean target of the property and audit the axioms of its theorems;
  2. run corpus + generated cases through the real code (/repo working tree, in-process) and
     through the Lean model driver (line protocol), compare the observables (correspondence) and
     evaluate the Lean spec predicates on the *implementation's* output;
  3. decide: spec failure on the implementation => VIOLATION with the failing input as replay
     (unless it is a listed known finding); broken proof or correspondence without a failing
     input => directed search, then VIOLATION ... no-failing-input-found;
  4. write /verif/evidence/<id>.json.

Exit codes: 0 held, 1 violation, 2 infrastructure problem (never reported as a violation).
"""
from __future__ import annotations

import hashlib
import json
import os
import random
import re
import subprocess
import sys
import time
import traceback
from fractions import Fraction
from pathlib import Path

VERIF = Path(__file__).resolve().parent.parent
LEAN = VERIF / 'lean'
REPO = Path(os.environ.get('AMPY_REPO', '/repo'))
EVIDENCE = VERIF / 'evidence'
REPLAYS = VERIF / 'replays'
CORPUS = VERIF / 'corpus'
KNOWN = VERIF / 'known_findings.json'
DRIVER = LEAN / '.lake' / 'build' / 'bin' / 'ampydrv'
GUARD = 'AMPYCLOUD_VERIF'
ALLOWED_AXIOMS = {'propext', 'Classical.choice', 'Quot.sound'}
FORBIDDEN = re.compile(r'\b(sorry|admit|native_decide|bv_decide|implemented_by|unsafe)\b|^\s*axiom\s|maxHeartbeats\s+0')

TRUSTED_BASE = [
    'Lean 4.33 kernel (axioms allowed: propext, Classical.choice, Quot.sound; audited with #print axioms on every run)',
    'hand-written Lean model of the ampycloud logic; tied to /repo only by this correspondence check (differential, bounded by the generators)',
    'harness: wrappers recording third-party kernel answers, float.as_integer_ratio export, driver parser, canonicalisation rules',
    'third-party kernels (scikit-learn, statsmodels, numpy, pandas) are parameters/checked oracles of the model, not verified',
    'binary64 arithmetic is outside the theorems (exact rationals); validated at boundaries by the harness',
    'source tie (C17, C18): harness/py2lean.py (Python subset -> Lean) and the meaning it gives that subset in lean/Ampy/Gen/Prelude.lean',
]


class InfraError(Exception):
    """Something in the machinery itself failed: exit 2, never a violation."""


# --------------------------------------------------------------------------------------------
# the implementation under test
# --------------------------------------------------------------------------------------------
def import_ampycloud():
    """Import ampycloud from /repo's working tree and assert that is where it came from."""
    os.environ[GUARD] = '1'
    src = str(REPO / 'src')
    if src not in sys.path:
        sys.path.insert(0, src)
    import warnings
    import logging
    logging.disable(logging.CRITICAL)
    with warnings.catch_warnings():
        warnings.simplefilter('ignore')
        import ampycloud  # noqa
    if not str(Path(ampycloud.__file__).resolve()).startswith(str(REPO.resolve())):
        raise InfraError(f'ampycloud imported from {ampycloud.__file__}, not from {REPO}')
    return ampycloud


def packaged_defaults():
    """The packaged default parameters, parsed here from the file in the tree under test (ruamel, YAML 1.2, safe) -
    independently of `dynamic.get_default_prms()`, whose answer is part of what the checks judge."""
    import copy
    global _PACKAGED
    try:
        return copy.deepcopy(_PACKAGED)
    except NameError:
        pass
    from ruamel.yaml import YAML
    f = REPO / 'src' / 'ampycloud' / 'prms' / 'ampycloud_default_prms.yml'
    _PACKAGED = YAML(typ='safe').load(f)
    return copy.deepcopy(_PACKAGED)


class _Sink:
    """A logging handler that formats every record (so that lazy argument formatting really runs) and drops it."""

    def __new__(cls):
        import logging

        class Sink(logging.Handler):
            def emit(self, record):
                try:
                    self.format(record)
                except Exception:  # a formatting problem of a log record is not a property failure
                    pass
        return Sink(level=logging.DEBUG)


import contextlib


@contextlib.contextmanager
def debug_logging(on=True):
    """Ambient configuration: run the body with the `ampycloud` loggers effective at DEBUG (records formatted by a
    sink handler, nothing printed).  The default for all checks is logging disabled; a share of the cases is run
    under this variant because the package's behaviour must not depend on the logging configuration."""
    if not on:
        yield
        return
    import logging
    lg = logging.getLogger('ampycloud')
    prev_disable = logging.root.manager.disable
    prev_level, prev_prop = lg.level, lg.propagate
    sink = _Sink()
    logging.disable(logging.NOTSET)
    lg.setLevel(logging.DEBUG)
    lg.addHandler(sink)
    lg.propagate = False
    try:
        yield
    finally:
        lg.removeHandler(sink)
        lg.setLevel(prev_level)
        lg.propagate = prev_prop
        logging.disable(prev_disable)


def ambient_debug_for(key, share=4) -> bool:
    """Deterministic choice (from the case itself, not from the PRNG stream) of the cases run under DEBUG logging."""
    import zlib
    return zlib.crc32(repr(key).encode()) % share == 0


def frac(x) -> str:
    """Exact rendering of a Python/numpy float or int as `p/q`, NaN as `nan`."""
    import math
    if x is None:
        return 'nan'
    if isinstance(x, Fraction):
        return f'{x.numerator}/{x.denominator}' if x.denominator != 1 else str(x.numerator)
    if isinstance(x, bool):
        return str(int(x))
    if isinstance(x, int):
        return str(x)
    try:
        import numpy as np
        if isinstance(x, np.integer):
            return str(int(x))
    except ImportError:  # pragma: no cover
        pass
    x = float(x)
    if math.isnan(x):
        return 'nan'
    if math.isinf(x):
        return 'inf' if x > 0 else '-inf'
    n, d = x.as_integer_ratio()
    return f'{n}/{d}' if d != 1 else str(n)


def parse_frac(s: str):
    if s == 'nan':
        return None
    return Fraction(s)


# --------------------------------------------------------------------------------------------
# Lean side
# --------------------------------------------------------------------------------------------
def _run(cmd, cwd=None, timeout=3600, inp=None):
    return subprocess.run(cmd, cwd=cwd, input=inp, capture_output=True, text=True, timeout=timeout)


def lean_build(targets):
    """`lake build` of the given targets (no-op when up to date). Returns (ok, log)."""
    r = _run(['lake', 'build', *targets], cwd=LEAN, timeout=3 * 3600)
    return r.returncode == 0, (r.stdout + r.stderr)[-4000:]


# Source tie (DESIGN.md 11.10): functions whose Lean text is regenerated from /repo's source on every run, per property.
SOURCE_TIE = {
    'C02': ['_ncd_or_nsc'],
    'C19': ['minrange2minmax', 'shift_and_scale', 'minmax_scale'],
    'C04': ['calc_base_height'],
    'C06': ['_get_min_sep_for_height'],
    'C08': ['best_gmm'],
    'C17': ['significant_cloud'],
    'C18': ['okta2code', 'height2code', 'perc2okta'],
    'C20': ['okta2symb', 'perc2okta'],
}
_SRC_OFF = set()   # properties whose source-level theorem file is left out of this run (a function is untranslatable)


def theorem_files(prop: str):
    """Files holding the property's theorems: Props/Cxx.lean, Props/CxxSrc.lean (the same statements about the
    definitions regenerated from the source, when every function of the property could be translated), and
    Props/Monitor.lean (soundness of the run-time monitor's spec predicates) when it declares theorems for this
    property."""
    out = []
    f = LEAN / 'Ampy' / 'Props' / f'{prop}.lean'
    if f.exists():
        out.append(f)
    g = LEAN / 'Ampy' / 'Props' / f'{prop}Src.lean'
    if g.exists() and prop not in _SRC_OFF:
        out.append(g)
    m = LEAN / 'Ampy' / 'Props' / 'Monitor.lean'
    if m.exists() and re.search(rf'^theorem\s+{prop}_\w+', m.read_text(), flags=re.M):
        out.append(m)
    return out


def theorem_modules(prop: str):
    return ['Ampy.Props.' + f.stem for f in theorem_files(prop)]


def theorem_names(prop: str):
    """Names of the property theorems `Cxx_*` declared in Ampy/Props/Cxx.lean (and Props/Monitor.lean)."""
    names = []
    for f in theorem_files(prop):
        names += re.findall(rf'^theorem\s+({prop}_\w+)', f.read_text(), flags=re.M)
    return names


def import_closure(roots):
    """Lean source files of this project reachable through `import Ampy...` from the given modules."""
    seen, todo = {}, list(roots)
    while todo:
        m = todo.pop()
        if m in seen:
            continue
        f = LEAN / (m.replace('.', '/') + '.lean')
        if not f.exists():
            continue
        seen[m] = f
        for imp in re.findall(r'^import\s+(Ampy[\w.]*|Main)\s*$', f.read_text(), flags=re.M):
            todo.append(imp)
    return list(seen.values())


def grep_forbidden(prop=None):
    """Forbidden constructs in the Lean sources the property's theorems and the driver are built from
    (comments stripped)."""
    roots = ['Main'] + (theorem_modules(prop) if prop else [])
    files = import_closure(roots) if prop else list((LEAN / 'Ampy').rglob('*.lean')) + [LEAN / 'Main.lean']
    hits = []
    for f in files:
        txt = f.read_text()
        txt = re.sub(r'/-.*?-/', lambda m: '\n' * m.group(0).count('\n'), txt, flags=re.S)
        for i, line in enumerate(txt.split('\n'), 1):
            line = line.split('--')[0]
            if FORBIDDEN.search(line):
                hits.append(f'{f.relative_to(LEAN)}:{i}: {line.strip()[:80]}')
    return hits


def audit_axioms(prop: str):
    """`#print axioms` on every theorem of the property. Returns dict name -> list of axioms,
    plus the list of names whose axioms are not all allowed (or that do not exist)."""
    names = theorem_names(prop)
    if not names:
        return {}, [f'no theorem named {prop}_* found']
    src = ''.join(f'import {m}\n' for m in theorem_modules(prop)) + ''.join(f'#print axioms Ampy.{n}\n' for n in names)
    tmp = LEAN / '.lake' / f'audit_{prop}_{os.getpid()}.lean'
    tmp.parent.mkdir(exist_ok=True)
    tmp.write_text(src)
    try:
        r = _run(['lake', 'env', 'lean', str(tmp)], cwd=LEAN, timeout=1800)
    finally:
        tmp.unlink(missing_ok=True)
    out = r.stdout + r.stderr
    res, bad = {}, []
    for n in names:
        m = re.search(rf"'Ampy\.{n}' depends on axioms: \[(.*?)\]", out, flags=re.S)
        if m:
            ax = [a.strip() for a in m.group(1).replace('\n', ' ').split(',') if a.strip()]
        elif re.search(rf"'Ampy\.{n}' does not depend on any axioms", out):
            ax = []
        else:
            bad.append(f'{n}: not checked ({out.strip()[-200:]})')
            continue
        res[n] = ax
        extra = [a for a in ax if a not in ALLOWED_AXIOMS]
        if extra:
            bad.append(f'{n}: uses {extra}')
    return res, bad


@contextlib.contextmanager
def lean_lock():
    """Serialise everything that writes into the Lake project (regeneration of Ampy/Gen, lake build, audit)."""
    import fcntl
    (LEAN / '.lake').mkdir(exist_ok=True)
    with open(LEAN / '.lake' / 'verif.lock', 'w') as fh:
        fcntl.flock(fh, fcntl.LOCK_EX)
        try:
            yield
        finally:
            fcntl.flock(fh, fcntl.LOCK_UN)


def regenerate_sources():
    """Run the source translator on the tree under test; returns py2lean.generate()'s report."""
    from . import py2lean
    return py2lean.generate(REPO / 'src', LEAN / 'Ampy' / 'Gen')


class Driver:
    """Batch access to the compiled Lean model driver (one request line -> one answer line)."""

    def __init__(self):
        if not DRIVER.exists():
            ok, log = lean_build(['ampydrv'])
            if not ok or not DRIVER.exists():
                raise InfraError('cannot build the Lean driver:\n' + log)

    def ask(self, lines):
        if not lines:
            return []
        for ln in lines:
            if '\n' in ln:
                raise InfraError('newline inside a request')
        r = subprocess.run([str(DRIVER)], input='\n'.join(lines) + '\n', capture_output=True,
                           text=True, timeout=7200)
        if r.returncode != 0:
            raise InfraError(f'driver exited with {r.returncode}: {r.stderr[-500:]}')
        out = r.stdout.split('\n')
        if out and out[-1] == '':
            out.pop()
        if len(out) != len(lines):
            raise InfraError(f'driver answered {len(out)} lines for {len(lines)} requests')
        return out


# --------------------------------------------------------------------------------------------
# known findings
# --------------------------------------------------------------------------------------------
def load_known():
    if not KNOWN.exists():
        return {'known': [], 'fixed': []}
    return json.loads(KNOWN.read_text())


# --------------------------------------------------------------------------------------------
# one check run
# --------------------------------------------------------------------------------------------
class Check:
    def __init__(self, prop: str, tier: str, seed: int, level: str = 'proof'):
        self.prop, self.tier, self.seed, self.level = prop, tier, seed, level
        self.rng = random.Random(f'{prop}:{seed}')
        self.t0 = time.time()
        self.evaluations = 0
        self.nontrivial = set()
        self.samples = []
        self.hist = {}
        self.notes = []
        self.assumptions = []
        self.mismatches = []      # correspondence differences (model != implementation)
        self.spec_fails = []      # property clauses failing on the implementation
        self.proof_problems = []  # broken build / audit
        self.obligations = 0
        self.discharged = 0
        self.axioms = {}
        self.violations = 0
        self.known_hits = []
        self.extra = {}
        self.exhaustive = False
        self.rule = ''
        self.explanation = ''
        self.driver = None
        self.escalate = False     # explore at the thorough size (set when the source tie is lost or broken)

    @property
    def size_tier(self):
        """Tier that sizes the exploration: thorough when the source tie was lost or broke (escalated search)."""
        return 'thorough' if self.escalate else self.tier

    # -- bookkeeping ------------------------------------------------------------------------
    def count(self, key, n=1):
        self.hist[key] = self.hist.get(key, 0) + n

    def case(self, desc, nontrivial=True, sample=None):
        """Register one evaluated case; `desc` is hashed for the distinct count."""
        self.evaluations += 1
        if nontrivial:
            self.nontrivial.add(hashlib.sha1(repr(desc).encode()).digest()[:10])
        if sample is not None and len(self.samples) < 8:
            self.samples.append(sample)

    def mismatch(self, clause, detail, replay):
        self.mismatches.append({'clause': clause, 'detail': detail, 'replay': replay})

    def spec_fail(self, clause, detail, replay, signature=None):
        self.spec_fails.append({'clause': clause, 'detail': detail, 'replay': replay,
                                'signature': signature})

    # -- Lean ---------------------------------------------------------------------------------
    def prove(self):
        """Regenerate the translated sources, build the property's proof target + driver, audit axioms and
        forbidden constructs."""
        with lean_lock():
            return self._prove()

    def _prove(self):
        fns = SOURCE_TIE.get(self.prop, [])
        tie = {}
        if fns:
            rep = regenerate_sources()
            for fn in fns:
                r = rep[fn]
                tie[fn] = ('translated from the current source (sha ' + r['sha'] + '), ' + ('equality with the model proved' if fn != 'okta2symb' else 'the theorems of Props/C20Src.lean are stated about it directly')
                           ) if r['ok'] else 'NOT TRANSLATABLE: ' + str(r['reason'])
                if not r['ok']:
                    _SRC_OFF.add(self.prop)
                    self.escalate = True
                    self.notes.append(f'source tie lost for {fn} (outside the translated subset: {r["reason"]}); '
                                      'this run falls back to the behavioural correspondence, explored at the thorough size')
            self.extra['source_tie'] = tie
        ok, log = lean_build(theorem_modules(self.prop) + ['ampydrv'])
        names = theorem_names(self.prop)
        self.obligations = len(names)
        if not ok:
            src_mod = f'Ampy.Props.{self.prop}Src'
            if fns and self.prop not in _SRC_OFF and src_mod in theorem_modules(self.prop):
                # which part broke: the hand-written theorems, or the equality of the regenerated source with the model?
                _SRC_OFF.add(self.prop)
                ok2, log2 = lean_build(theorem_modules(self.prop) + ['ampydrv'])
                _SRC_OFF.discard(self.prop)
                if ok2:
                    self.proof_problems.append(
                        'source tie: the definitions regenerated from the current source are no longer proved equal to '
                        f'the model ({", ".join(fns)}; theorems of Ampy/GenEq and Props/{self.prop}Src.lean): ' + log[-1200:])
                    self.escalate = True
                    for fn in fns:
                        tie[fn] = 'translated, but the equality with the model NO LONGER CHECKS'
                else:
                    self.proof_problems.append('lake build failed: ' + log2[-1500:])
            else:
                self.proof_problems.append('lake build failed: ' + log[-1500:])
            self.discharged = 0
        else:
            self.axioms, bad = audit_axioms(self.prop)
            self.discharged = sum(1 for n in names if n in self.axioms
                                  and all(a in ALLOWED_AXIOMS for a in self.axioms[n]))
            self.proof_problems += bad
        if ok and self.tier == 'thorough':
            # independent re-check of the compiled theorem modules and of every project module they import
            mods = sorted({str(f.relative_to(LEAN).with_suffix('')).replace('/', '.')
                           for f in import_closure(theorem_modules(self.prop))})
            r = _run(['lake', 'env', 'leanchecker', *mods], cwd=LEAN, timeout=3600)
            if r.returncode != 0:
                self.proof_problems.append('leanchecker rejected the compiled modules: ' + (r.stdout + r.stderr)[-600:])
                self.discharged = 0
            self.extra['leanchecker'] = f"{'ok' if r.returncode == 0 else 'FAILED'} ({len(mods)} modules re-checked)"
        forb = grep_forbidden(self.prop)
        if forb:
            self.proof_problems.append('forbidden constructs: ' + '; '.join(forb[:5]))
            self.discharged = 0
        if not DRIVER.exists():
            raise InfraError('Lean driver missing after build:\n' + log)
        self.driver = Driver()
        return not self.proof_problems

    # -- verdict ------------------------------------------------------------------------------
    def _write_replay(self, obj, tag):
        REPLAYS.mkdir(exist_ok=True)
        p = REPLAYS / f'{self.prop}-{tag}-{self.seed}-{self.violations}.json'
        obj = dict(obj)
        obj.setdefault('property', self.prop)
        obj.setdefault('seed', self.seed)
        obj.setdefault('tier', self.tier)
        p.write_text(json.dumps(obj, indent=1, default=str))
        return p

    def _known_match(self, sf):
        for k in load_known().get('known', []):
            if k.get('property') == self.prop and k.get('signature') is not None \
                    and k.get('signature') == sf.get('signature'):
                return k
        return None

    def finish(self, search=None):
        """Apply the verdict logic, write evidence, return the exit code."""
        reported = set()
        for sf in self.spec_fails:
            k = self._known_match(sf)
            if k is not None:
                if k['id'] not in self.known_hits:
                    self.known_hits.append(k['id'])
                    print(f"KNOWN-FINDING: property={self.prop} {k['what']}")
                continue
            key = (sf['clause'], sf.get('signature'))
            if key in reported:
                continue
            reported.add(key)
            p = self._write_replay({'kind': 'failing-input', 'clause': sf['clause'],
                                    'detail': sf['detail'], 'case': sf['replay']}, 'fail')
            self.violations += 1
            print(f'VIOLATION property={self.prop} replay={p}')
            if len(reported) >= 5:
                break
        if self.violations == 0 and (self.proof_problems or self.mismatches):
            found = None
            if search is not None:
                try:
                    found = search(self)
                except InfraError:
                    raise
                except Exception:  # search is best effort
                    self.notes.append('directed search crashed: ' + traceback.format_exc()[-400:])
            if found:
                p = self._write_replay({'kind': 'failing-input', 'clause': found['clause'],
                                        'detail': found['detail'], 'case': found['replay'],
                                        'found_by': 'directed search after broken correspondence/proof'},
                                       'fail')
                self.violations += 1
                print(f'VIOLATION property={self.prop} replay={p}')
            else:
                obj = {'kind': 'no-failing-input-found',
                       'broken_proof': self.proof_problems[:5],
                       'theorems': theorem_names(self.prop),
                       'broken_correspondence': [
                           {'clause': m['clause'], 'detail': m['detail'], 'case': m['replay']}
                           for m in self.mismatches[:5]],
                       'n_mismatches': len(self.mismatches)}
                p = self._write_replay(obj, 'broken')
                self.violations += 1
                print(f'VIOLATION property={self.prop} replay={p} no-failing-input-found')
        self.write_evidence()
        return 1 if self.violations else 0

    def write_evidence(self):
        EVIDENCE.mkdir(exist_ok=True)
        cov = {
            'evaluations': self.evaluations,
            'distinct_nontrivial': len(self.nontrivial),
            'rule': self.rule,
            'samples': self.samples[:8],
            'obligations': self.obligations,
            'discharged': self.discharged,
            'checker_cmd': f"cd lean && lake build {' '.join(theorem_modules(self.prop))} && lake env lean <#print axioms of every {self.prop}_* theorem>",
            'trusted_base': TRUSTED_BASE,
            'exhaustive': self.exhaustive,
            'theorems': {n: self.axioms.get(n) for n in theorem_names(self.prop)},
            'histogram': dict(sorted(self.hist.items())),
            'correspondence_mismatches': len(self.mismatches),
            'spec_failures_on_implementation': len(self.spec_fails),
            'known_findings_hit': self.known_hits,
            'notes': self.notes[:20],
        }
        if self.explanation:
            cov['explanation'] = self.explanation
        cov.update(self.extra)
        ev = {
            'property_id': self.prop,
            'tier': self.tier,
            'seed': self.seed,
            'level': self.level,
            'coverage': cov,
            'assumptions': self.assumptions,
            'wall_s': round(time.time() - self.t0, 2),
            'violations': self.violations,
        }
        (EVIDENCE / f'{self.prop}.json').write_text(json.dumps(ev, indent=1, default=str))


def main(prop, run, replay=None, level='proof'):
    """Entry used by every props/cXX.py module: `run(check)` does the work and may return a
    directed-search callable; `replay(check, obj)` re-runs one saved case."""
    import argparse
    ap = argparse.ArgumentParser()
    ap.add_argument('--tier', default=os.environ.get('VERIF_TIER', 'quick'))
    ap.add_argument('--replay', default=None)
    a = ap.parse_args(sys.argv[2:])
    seed = int(os.environ.get('VERIF_SEED', '0') or 0)
    tier = a.tier if a.tier in ('quick', 'thorough') else 'quick'
    chk = Check(prop, tier, seed, level)
    try:
        if a.replay:
            obj = json.loads(Path(a.replay).read_text())
            chk.driver = Driver()
            if replay is None:
                print('no replay support for this property')
                return 2
            return replay(chk, obj)
        chk.prove()
        search = run(chk)
        return chk.finish(search)
    except InfraError as e:
        print(f'INFRA-ERROR {prop}: {e}', file=sys.stderr)
        return 2
    except subprocess.TimeoutExpired as e:
        print(f'INFRA-TIMEOUT {prop}: {e}', file=sys.stderr)
        return 2
    except Exception:
        print(f'INFRA-CRASH {prop}:\n{traceback.format_exc()}', file=sys.stderr)
        return 2
