"""F2b (C06): with BASE_LVL_LOOKBACK_PERC < 100 and rows not in time-ascending order, the mixture
components of a group were based (and re-merged) on the *row* order of the hits, while the layers are
reported from the *time* order: two layers split from one group (ncomp == number of layers, nothing
re-merged) can be closer than the group's minimum separation.  Expected: >= MIN_SEP apart, whatever the
row order."""
import sys, warnings
import numpy as np, pandas as pd
warnings.simplefilter('ignore')
import ampycloud


def scene(order):
    n = 60
    t = -900.0 + 15.0 * np.arange(n)
    lower = 1000.0 + 4.0 * np.arange(n)        # drifting up
    upper = 1420.0 - 1.5 * np.arange(n)        # drifting down: the two get closer with time
    rows = []
    for i in range(n):
        rows.append(('0', t[i], lower[i], 1))
        rows.append(('0', t[i], upper[i], 2))
    df = pd.DataFrame({'ceilo': pd.array([r[0] for r in rows], dtype=pd.StringDtype()), 'dt': [r[1] for r in rows],
                       'height': [r[2] for r in rows], 'type': np.array([r[3] for r in rows], dtype=int)})
    if order == 'descending':
        df = df.iloc[::-1].reset_index(drop=True)
    return df


bad = 0
for order in ('ascending', 'descending'):
    for lb in (100, 40, 20):
        c = ampycloud.run(scene(order), prms={'BASE_LVL_LOOKBACK_PERC': lb, 'MIN_SEP_VALS': [250, 1000]})
        split = c.groups[c.groups['ncomp'] > 1]
        for _, g in split.iterrows():
            lids = sorted(set(c.data.loc[c.data['group_id'] == g['cluster_id'], 'layer_id']))
            lay = c.layers[c.layers['cluster_id'].isin(lids)].sort_values('height_base')
            gaps = np.diff(lay['height_base'].to_numpy())
            ok = len(lay) != g['ncomp'] or all(gaps >= 250)
            print(f'{order:10s} lookback={lb:3d}: ncomp={g["ncomp"]} layers={len(lay)} bases={list(np.round(lay["height_base"], 1))} gaps={list(np.round(gaps, 1))} {"ok" if ok else "TOO CLOSE"}')
            bad += not ok
sys.exit(1 if bad else 0)
