"""F3 (C05): with more than 100 slices a generated layer id 100+10*ind+k can equal an inherited group
id >= 100, so one layer spans two groups (and swallows far-away hits).
Expected: every layer lies inside exactly one group."""
import sys, warnings
import numpy as np, pandas as pd
warnings.simplefilter('ignore')
import ampycloud

rows = []
t = -3000.0
for i in range(40):                      # one splittable group: alternating 200 / 530 ft
    rows.append(('0', t, 200.0 if i % 2 == 0 else 530.0, 1)); t += 10
for s in range(104):                     # 104 two-hit flat slices, 400 ft apart
    for _ in range(2):
        rows.append(('0', t, 1000.0 + 400.0 * s, 1)); t += 10
df = pd.DataFrame({'ceilo': pd.array([r[0] for r in rows], dtype=pd.StringDtype()), 'dt': [r[1] for r in rows],
                   'height': [r[2] for r in rows], 'type': np.array([r[3] for r in rows], dtype=int)})
prms = {'SLICING_PRMS': {'distance_threshold': 0.002}, 'MIN_SEP_VALS': [100, 400], 'MIN_SEP_LIMS': [350],
        'MAX_HITS_OKTA0': 0, 'LAYERING_PRMS': {'min_okta_to_split': 0}}
c = ampycloud.run(df, prms=prms)
span = c.data.groupby('layer_id')['group_id'].nunique()
bad = span[span > 1]
print('n_slices', c.n_slices, 'n_groups', c.n_groups, 'n_layers', c.n_layers)
print('layers spanning more than one group:', dict(bad))
for lid in bad.index:
    print(c.layers[c.layers.cluster_id == lid][['code', 'n_hits', 'height_min', 'height_max', 'cluster_id']].to_string())
sys.exit(1 if len(bad) else 0)
