"""F5b (C14): repeating a permitted stage must be idempotent.  find_slices() (or metarize('slices'))
called again after find_groups() rebuilt the slices table with the `isolated` column reset to all-True,
i.e. a table different from the canonical one."""
import sys, warnings
import numpy as np, pandas as pd
warnings.simplefilter('ignore')
from ampycloud.data import CeiloChunk

# one steadily descending layer: it is cut in two height slices that overlap (= not isolated)
hs = [7118, 7121, 7094, 7078, 7078, 7060, 7046, 7025, 7009, 6988, 6981, 6992, 6957, 6958, 6939, 6907, 6911, 6874,
      6888, 6847, 6839, 6852, 6826, 6799, 6797, 6793, 6751, 6769, 6748, 6741]
rows = [('0', -883.0 + 30 * i, float(h), 1) for i, h in enumerate(hs)]
df = pd.DataFrame({'ceilo': pd.array([r[0] for r in rows], dtype=pd.StringDtype()), 'dt': [r[1] for r in rows],
                   'height': [r[2] for r in rows], 'type': np.array([r[3] for r in rows], dtype=int)})
c = CeiloChunk(df)
c.find_slices(); c.find_groups()
canon = list(c.slices['isolated'])
c.find_slices()
again = list(c.slices['isolated'])
print('isolated after find_groups():', canon)
print('isolated after find_slices() again:', again)
sys.exit(0 if [bool(x) for x in canon] == [bool(x) for x in again] else 1)
