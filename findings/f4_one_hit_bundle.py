"""F4 (C08): a slice bundle reduced to a single valid hit reaches scikit-learn's clustering, which
refuses one sample with a ValueError.  Expected: run() returns a chunk."""
import sys, warnings
import numpy as np, pandas as pd
warnings.simplefilter('ignore')
import ampycloud

rows = [('1', -900., 1700., 1), ('0', -150., 1700., 1), ('1', -690., 1700., 1), ('1', -750., 1800., 1)]
df = pd.DataFrame({'ceilo': pd.array([r[0] for r in rows], dtype=pd.StringDtype()),
                   'dt': [r[1] for r in rows], 'height': [r[2] for r in rows],
                   'type': np.array([r[3] for r in rows], dtype=int)})
try:
    chunk = ampycloud.run(df, prms={'SLICING_PRMS': {'dt_scale': 1000}})
    print('run() returned; message:', chunk.metar_msg())
    sys.exit(0)
except Exception as e:
    print(f'run() raised {type(e).__name__}: {e}')
    sys.exit(1)
