"""F9 (C10, C08): two superfluous columns carrying the same label (as after pd.concat(axis=1)) made the loop that drops
superfluous columns raise `KeyError` (the first drop removes both, the second finds none).  Repaired in /repo by looping
over the distinct labels.

Run as:  PYTHONPATH=<tree>/src /venv/bin/python f9_duplicate_extra_columns.py     exit 1 = defect present.
"""
import sys
import warnings

import pandas as pd

import ampycloud
from ampycloud import hardcoded


def main():
    df = pd.DataFrame([('A', -15.0 * i, 1500.0, 1) for i in range(20)], columns=['ceilo', 'dt', 'height', 'type'])
    for c, t in hardcoded.REQ_DATA_COLS.items():
        df[c] = df[c].astype(t)
    with warnings.catch_warnings():
        warnings.simplefilter('ignore')
        ref = ampycloud.run(df).metar_msg()
        d = df.copy()
        d['station'] = 'LSZH'
        d = pd.concat([d, d[['station']]], axis=1)
        try:
            msg = ampycloud.run(d).metar_msg()
        except Exception as e:
            print(f'F9: {type(e).__name__}: {e}')
            print('F9 present')
            return 1
    if msg != ref:
        print(f'F9: {msg!r} instead of {ref!r}')
        return 1
    print('F9 absent')
    return 0


if __name__ == '__main__':
    sys.exit(main())
