"""F1 (C10, C08, C07): non-unique index labels, as produced by pd.concat of per-ceilometer frames.
Expected: same tables/message as the plainly indexed frame.  Pinned tree: IndexError / wrong crop."""
import sys, warnings
import numpy as np, pandas as pd
warnings.simplefilter('ignore')
import ampycloud
from ampycloud.data import CeiloChunk


def frame(name, n, h):
    return pd.DataFrame({'ceilo': pd.array([name] * n, dtype=pd.StringDtype()), 'dt': -15.0 * np.arange(n, 0, -1),
                         'height': np.full(n, float(h)), 'type': np.ones(n, dtype=int)})


a, b = frame('A', 20, 1000), frame('B', 20, 4000)
dup = pd.concat([a, b])                      # labels 0..19 twice
plain = dup.reset_index(drop=True)
bad = 0
for msa in (None, 10000, 3000):
    ref = ampycloud.run(plain, prms={'MSA': msa}).metar_msg()
    try:
        got = ampycloud.run(dup, prms={'MSA': msa}).metar_msg()
    except Exception as e:
        got = f'{type(e).__name__}: {e}'
    print(f'MSA={msa}: plain index -> {ref!r}; repeated labels -> {got!r}')
    bad += got != ref
sys.exit(1 if bad else 0)
