"""F5a (C14, C20): find_groups() called once layers exist must be refused *without* touching earlier
results.  Pinned tree: it overwrites group_id (and the slices' isolation column) and only then
raises, so a following find_layers() reports different layers."""
import sys, warnings
import numpy as np, pandas as pd
warnings.simplefilter('ignore')
from ampycloud.data import CeiloChunk
from ampycloud.errors import AmpycloudError

n = 150
df = pd.DataFrame({'ceilo': pd.array(['0'] * n, dtype=pd.StringDtype()), 'dt': -6.0 * np.arange(n, 0, -1),
                   'height': np.where(np.arange(n) % 2 == 0, 2500., 2700.), 'type': np.ones(n, dtype=int)})
c = CeiloChunk(df)
c.find_slices(); c.find_groups(); c.find_layers()
before = (c.data.copy(), c.groups.copy(), c.layers.copy(), c.metar_msg())
try:
    c.find_groups()
    refused = False
except AmpycloudError:
    refused = True
same = c.data.equals(before[0]) and c.groups.equals(before[1]) and c.layers.equals(before[2])
print('refused:', refused, '| state intact after the refusal:', same)
c.find_layers()
print('message before:', before[3], '| after find_groups(refused) + find_layers():', c.metar_msg())
sys.exit(0 if (refused and same and c.metar_msg() == before[3]) else 1)
