"""F8 (C10, C08): an index (level) named 'dt' or 'ceilo' - e.g. `data.set_index('dt', drop=False)` - made the coincidence
checks of `check_data_consistency` fail with pandas' "'dt' is both an index level and a column label, which is ambiguous".
Repaired in /repo by dropping the index of the two frames that are merged.

Run as:  PYTHONPATH=<tree>/src /venv/bin/python f8_index_named_like_a_column.py     exit 1 = defect present.
"""
import sys
import warnings

import pandas as pd

import ampycloud
from ampycloud import hardcoded


def main():
    df = pd.DataFrame([('A', -15.0 * i, 1500.0, 1) for i in range(20)], columns=['ceilo', 'dt', 'height', 'type'])
    for c, t in hardcoded.REQ_DATA_COLS.items():
        df[c] = df[c].astype(t)
    bad = []
    with warnings.catch_warnings():
        warnings.simplefilter('ignore')
        ref = ampycloud.run(df).metar_msg()
        for name in ('dt', 'ceilo'):
            try:
                msg = ampycloud.run(df.set_index(name, drop=False)).metar_msg()
                if msg != ref:
                    bad.append(f'index named {name!r}: {msg!r} instead of {ref!r}')
            except Exception as e:
                bad.append(f'index named {name!r}: {type(e).__name__}: {str(e)[:80]}')
    for b in bad:
        print('F8:', b)
    print('F8 present' if bad else 'F8 absent')
    return 1 if bad else 0


if __name__ == '__main__':
    sys.exit(main())
