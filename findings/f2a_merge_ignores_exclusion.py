"""F2a (C06): with EXCLUDE_FOR_BASE_HEIGHT_CALC set, the group-merging loop recomputed the base of a
merged group *without* the exclusion filter while the report applies it, so two reported groups can
be closer than the minimum separation.  Expected: reported group bases >= MIN_SEP apart."""
import sys, warnings
import numpy as np, pandas as pd
warnings.simplefilter('ignore')
import ampycloud

rows = []
for i in range(50):
    rows.append(('B', -900.0 + 15 * i, 300.0, 1))
for i in range(10):
    rows.append(('A', -899.0 + 15 * i, 520.0, 1))
for i in range(50):
    rows.append(('A', -700.0 + 10 * i + 0.5, 740.0, 1))
df = pd.DataFrame({'ceilo': pd.array([r[0] for r in rows], dtype=pd.StringDtype()), 'dt': [r[1] for r in rows],
                   'height': [r[2] for r in rows], 'type': np.array([r[3] for r in rows], dtype=int)})
prms = {'EXCLUDE_FOR_BASE_HEIGHT_CALC': ['B'], 'MIN_SEP_VALS': [250, 1000]}
c = ampycloud.run(df, prms=prms)
bases = list(c.groups['height_base'])
print('group bases:', bases, 'message:', c.metar_msg('groups'))
gaps = [b - a for a, b in zip(bases, bases[1:])]
print('gaps:', gaps)
sys.exit(1 if any(g < 250 for g in gaps) else 0)
