"""F10 (C20): the raw-data diagnostic plot with show_ceilos=True indexed the colour cycle (10 colours) with the ceilometer
number in the legend, without the modulo used for the hits themselves: IndexError for more than 10 ceilometers, the figure
left open.  Repaired in /repo (modulo, as two lines above).

Run as:  PYTHONPATH=<tree>/src /venv/bin/python f10_more_than_ten_ceilometers.py     exit 1 = defect present.
"""
import sys
import warnings

import matplotlib
matplotlib.use('Agg')
import matplotlib.pyplot as plt
import pandas as pd

import ampycloud
from ampycloud import hardcoded
from ampycloud.plots import diagnostic


def main():
    rows = [(f'c{k}', -15.0 * i, 1500.0 + k, 1) for k in range(12) for i in range(6)]
    df = pd.DataFrame(rows, columns=['ceilo', 'dt', 'height', 'type'])
    for c, t in hardcoded.REQ_DATA_COLS.items():
        df[c] = df[c].astype(t)
    with warnings.catch_warnings():
        warnings.simplefilter('ignore')
        chunk = ampycloud.run(df)
        try:
            diagnostic(chunk, upto='raw_data', show_ceilos=True, show=False)
        except Exception as e:
            print(f'F10: {type(e).__name__}: {e}; figures left open: {len(plt.get_fignums())}')
            print('F10 present')
            return 1
    print('F10 absent')
    return 0


if __name__ == '__main__':
    sys.exit(main())
