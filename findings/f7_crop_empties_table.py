"""F7 (C08) - KNOWN FINDING, not repaired: the MSA crop can leave a chunk without a single row.

A table holding only hits of type >= 2 (accepted by the checker, with a warning about missing lower types) that all lie
above MSA + MSA_HIT_BUFFER: the crop drops every higher-type hit above the limit, the chunk's data is empty and
`find_slices()` raises `ValueError: cannot set a frame with no defined index and a scalar` (and, once that is passed,
`find_layers()` and the plots fail on the empty table in turn).  Making the empty chunk processable touches several
sites in data.py and plots/: not a small, safe patch - recorded in known_findings.json by its cause signature
('crop-empties-the-table').

Run as:  PYTHONPATH=<tree>/src /venv/bin/python f7_crop_empties_table.py     exit 1 = defect present, 0 = absent.
"""
import sys
import warnings

import pandas as pd

import ampycloud
from ampycloud import hardcoded
from ampycloud.errors import AmpycloudError


def main():
    df = pd.DataFrame([('A', -15.0 * i, 9000.0, 2) for i in range(5)], columns=['ceilo', 'dt', 'height', 'type'])
    for c, t in hardcoded.REQ_DATA_COLS.items():
        df[c] = df[c].astype(t)
    with warnings.catch_warnings():
        warnings.simplefilter('ignore')
        try:
            chunk = ampycloud.run(df, prms={'MSA': 1000, 'MSA_HIT_BUFFER': 0})
            print('F7 absent: message', chunk.metar_msg())
            return 0
        except AmpycloudError as e:
            print('F7: valid input refused:', e)
        except Exception as e:
            print(f'F7: {type(e).__name__}: {e}')
    print('F7 present')
    return 1


if __name__ == '__main__':
    sys.exit(main())
