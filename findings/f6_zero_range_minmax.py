"""F6 (C05, C02, C19): a null height range under `SLICING_PRMS.height_scale_kwargs.min_range = 0`.

`scaler.minmax_scale` divided by `max_val - min_val`.  With identical hit heights (explicitly inside C05's quantifier)
and no minimum range (0 is `minrange2minmax`'s own default), that is 0/0: every scaled height is NaN, `find_slices`
finds no valid point, every hit with a valid height keeps slice / group / layer id -1, the three tables are empty and
an overcast deck is reported as 'NCD'.  Repaired in /repo by mapping a null range onto 0 (NaNs stay NaNs).

Run as:  PYTHONPATH=<tree>/src /venv/bin/python f6_zero_range_minmax.py     exit 1 = defect present, 0 = absent.
"""
import sys
import warnings

import numpy as np
import pandas as pd

import ampycloud
from ampycloud import hardcoded, scaler


def main():
    rows = [('A', -15.0 * i, 1500.0, 1) for i in range(20)] + [('A', -400.0, float('nan'), 0)]
    df = pd.DataFrame(rows, columns=['ceilo', 'dt', 'height', 'type'])
    for c, t in hardcoded.REQ_DATA_COLS.items():
        df[c] = df[c].astype(t)
    bad = []
    with warnings.catch_warnings():
        warnings.simplefilter('ignore')
        chunk = ampycloud.run(df, prms={'SLICING_PRMS': {'height_scale_kwargs': {'min_range': 0}}})
        valid = chunk.data['height'].notna()
        for col in ('slice_id', 'group_id', 'layer_id'):
            n = int((chunk.data.loc[valid, col] == -1).sum())
            if n:
                bad.append(f'{n} hits with a valid height have {col} = -1')
        if chunk.metar_msg() != 'OVC015':
            bad.append(f"message {chunk.metar_msg()!r} for 20 of 21 measurements at 1500 ft (expected 'OVC015')")
        vals = np.array([5., 5., np.nan])
        out = scaler.apply_scaling(vals, 'minmax-scale', min_range=0)
        if np.isnan(out[:2]).any():
            bad.append(f'minmax-scale turns valid values into NaN: {out}')
    for b in bad:
        print('F6:', b)
    print('F6 present' if bad else 'F6 absent')
    return 1 if bad else 0


if __name__ == '__main__':
    sys.exit(main())
